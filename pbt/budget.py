"""Step budget: counts LINE events executed in pyscsi frames (sys.monitoring on Python 3.12,
sys.settrace fallback) and aborts the monitored call by raising BudgetExceeded from the
callback once the count passes the limit.  Time is never used as an oracle."""
import os
import sys


class BudgetExceeded(BaseException):
    """BaseException so that no 'except Exception' inside the code under test can swallow it."""


_state = {"count": 0, "limit": None, "on": False}
_MARK = os.sep + "pyscsi" + os.sep
_TOOL = None


def _is_target(filename):
    return _MARK in filename and (os.sep + "pbt" + os.sep) not in filename


def _install():
    global _TOOL
    if _TOOL is not None:
        return
    mon = sys.monitoring
    for tid in (3, 4, 2, 5):
        try:
            mon.use_tool_id(tid, "verif-budget")
            _TOOL = tid
            break
        except ValueError:
            continue
    if _TOOL is None:
        raise RuntimeError("no free sys.monitoring tool id")

    def on_line(code, line):
        if not _is_target(code.co_filename):
            return mon.DISABLE
        if _state["on"]:
            _state["count"] += 1
            if _state["count"] > _state["limit"]:
                _state["on"] = False
                raise BudgetExceeded(_state["count"])
        return None

    mon.register_callback(_TOOL, mon.events.LINE, on_line)
    mon.set_events(_TOOL, mon.events.LINE)


def run(fn, limit):
    """-> (steps, outcome) where outcome is ('return', value) | ('raise', exception) | ('budget', steps)."""
    if hasattr(sys, "monitoring"):
        _install()
        _state.update(count=0, limit=limit, on=True)
        try:
            try:
                v = fn()
                return _state["count"], ("return", v)
            except BudgetExceeded:
                return _state["count"], ("budget", _state["count"])
            except RecursionError as e:
                return _state["count"], ("raise", e)
            except MemoryError as e:
                return _state["count"], ("budget", "MemoryError")
            except Exception as e:  # noqa
                return _state["count"], ("raise", e)
        finally:
            _state["on"] = False
    # fallback: settrace
    count = [0]

    def tracer(frame, event, arg):
        if not _is_target(frame.f_code.co_filename):
            return None

        def local(frame, event, arg):
            if event == "line":
                count[0] += 1
                if count[0] > limit:
                    raise BudgetExceeded(count[0])
            return local
        return local

    old = sys.gettrace()
    sys.settrace(tracer)
    try:
        try:
            return count[0], ("return", fn())
        except BudgetExceeded:
            return count[0], ("budget", count[0])
        except Exception as e:  # noqa
            return count[0], ("raise", e)
    finally:
        sys.settrace(old)
