"""Library-side vocabulary: how each of the 42 command classes is constructed, which facade
method builds it, which opcode-table entry it looks up, and how its argument names map to the
standard field names of pbt.stdspec.cdb (the only place where the two vocabularies meet).

This is data reviewed by hand; an argument mapped to None sizes a buffer and is not a CDB field."""
import importlib

TABLES = ("spc", "sbc", "ssc", "smc", "mmc")


class Cmd(object):
    def __init__(self, name, module, cls, std, key, pos, opt, fmap, facade=None, fpos=None,
                 lookup="attr", ctor_fixed=None, facade_fixed=None, size_args=(), facade_opt=None,
                 defaults=None):
        self.name, self.module, self.clsname, self.std = name, module, cls, std
        self.key, self.lookup = key, lookup
        self.pos, self.opt, self.fmap = pos, opt, fmap
        self.facade, self.fpos = facade, (fpos if fpos is not None else [p for p in pos if p not in ("blocksize",)])
        self.ctor_fixed = ctor_fixed or {}
        self.facade_fixed = facade_fixed or {}
        self.size_args = set(size_args)
        self.facade_opt = facade_opt if facade_opt is not None else opt
        self.defaults = defaults or {}

    @property
    def cls(self):
        return getattr(importlib.import_module("pyscsi.pyscsi." + self.module), self.clsname)

    def tables(self):
        """opcode tables that define the name this command looks up."""
        import pyscsi.pyscsi.scsi_enum_command as ec

        out = []
        for t in TABLES:
            tab = getattr(ec, t)
            if self.lookup == "attr":
                if self.key in tab.keys:
                    out.append(t)
            else:
                if any(k.endswith(self.key) for k in tab.keys):
                    out.append(t)
        return out

    def opcode(self, table):
        import pyscsi.pyscsi.scsi_enum_command as ec

        tab = getattr(ec, table)
        if self.lookup == "attr":
            return getattr(tab, self.key)
        for k in tab.keys:
            if k[len(k) - 2:] == self.key:
                return getattr(tab, k)
        raise KeyError(self.key)

    def build(self, opcode, a, positional=False):
        """construct through the class; `a` maps library argument names to values.  With positional=True the
        leading optional arguments that are supplied are passed by position as well (the order of `opt` is the
        order of the constructor's signature, which is part of the API)."""
        args = [a[p] if p in a else self.defaults[p] for p in self.pos]
        kw = {k: a[k] for k in self.opt if k in a}
        if positional and not self.ctor_fixed:
            for k in self.opt:
                if k not in kw:
                    break
                args.append(kw.pop(k))
        kw.update(self.ctor_fixed)
        return self.cls(opcode, *args, **kw)

    def call(self, scsi, a):
        """construct and execute through the facade method."""
        args = [a[p] if p in a else self.defaults[p] for p in self.fpos]
        kw = {k: a[k] for k in self.facade_opt if k in a}
        kw.update(self.facade_fixed)
        return getattr(scsi, self.facade)(*args, **kw)


RD = {"lba": "LBA", "tl": "TRANSFER LENGTH", "rdprotect": "RDPROTECT", "dpo": "DPO", "fua": "FUA",
      "rarc": "RARC", "group": "GROUP NUMBER", "blocksize": None}
WR = {"lba": "LBA", "tl": "TRANSFER LENGTH", "wrprotect": "WRPROTECT", "dpo": "DPO", "fua": "FUA",
      "group": "GROUP NUMBER", "blocksize": None, "data": None}
WS = {"lba": "LBA", "nb": "NUMBER OF LOGICAL BLOCKS", "wrprotect": "WRPROTECT", "anchor": "ANCHOR",
      "unmap": "UNMAP", "group": "GROUP NUMBER", "blocksize": None, "data": None}
ATA = {"protocal": "PROTOCOL", "t_length": "T_LENGTH", "byte_block": "BYTE_BLOCK", "t_dir": "T_DIR",
       "t_type": "T_TYPE", "off_line": "OFF_LINE", "fetures": "FEATURES", "count": "COUNT", "lba": "ATA LBA",
       "command": "COMMAND", "ck_cond": "CK_COND", "device": "DEVICE", "control": "CONTROL",
       "blocksize": None, "extra_tl": None, "data": None}
ATA_POS = ["protocal", "t_length", "byte_block", "t_dir", "t_type", "off_line", "fetures", "count", "lba", "command"]
ATA_OPT = ["blocksize", "extra_tl", "ck_cond", "device", "control", "data"]

PRIN = lambda n, cls, sa: Cmd(  # noqa: E731
    n, "scsi_cdb_persistentreservein", cls, "PERSISTENT RESERVE IN", "PERSISTENT_RESERVE_IN",
    [], ["alloclen"], {"alloclen": "ALLOCATION LENGTH", "service_action": "SERVICE ACTION"},
    facade="persistentreservein", fpos=["service_action"], size_args=["alloclen"],
    defaults={"alloclen": 1024, "service_action": sa})

COMMANDS = [
    Cmd("atapassthrough12", "scsi_cdb_atapassthrough12", "ATAPassThrough12", "ATA PASS-THROUGH(12)",
        "ATA_PASS_THROUGH_12", ATA_POS, ATA_OPT, ATA, facade="atapassthrough12", fpos=ATA_POS,
        defaults={"blocksize": 0, "extra_tl": None, "ck_cond": 0, "device": 0, "control": 0, "data": None}),
    Cmd("atapassthrough16", "scsi_cdb_atapassthrough16", "ATAPassThrough16", "ATA PASS-THROUGH(16)",
        "ATA_PASS_THROUGH_16", ATA_POS, ATA_OPT + ["extend"], dict(ATA, extend="EXTEND"),
        facade="atapassthrough16", fpos=ATA_POS,
        defaults={"blocksize": 0, "extra_tl": None, "ck_cond": 0, "device": 0, "control": 0, "data": None,
                  "extend": 1}),
    Cmd("exchangemedium", "scsi_cdb_exchangemedium", "ExchangeMedium", "EXCHANGE MEDIUM", "EXCHANGE_MEDIUM",
        ["xfer", "source", "dest1", "dest2"], ["inv1", "inv2"],
        {"xfer": "TRANSPORT ELEMENT ADDRESS", "source": "SOURCE ADDRESS", "dest1": "FIRST DESTINATION ADDRESS",
         "dest2": "SECOND DESTINATION ADDRESS", "inv1": "INV1", "inv2": "INV2"}, facade="exchangemedium",
        defaults={"inv1": 0, "inv2": 0}),
    Cmd("extendedcopy4", "scsi_cdb_extended_copy_spc4", "ExtendedCopy", "EXTENDED COPY(LID1)", "EXTENDED_COPY",
        [], ["list_identifier", "sequential_striped", "nrcr", "priority", "target_descriptor_list",
             "segment_descriptor_list", "inline_data"],
        {k: None for k in ["list_identifier", "sequential_striped", "nrcr", "priority", "target_descriptor_list",
                           "segment_descriptor_list", "inline_data"]}, facade="extendedcopy4"),
    Cmd("extendedcopy5", "scsi_cdb_extended_copy_spc5", "ExtendedCopy", "EXTENDED COPY(LID4)", "EXTENDED_COPY",
        [], ["sequential_striped", "list_id_usage", "priority", "g_sense", "immed", "list_identifier",
             "cscd_descriptor_list", "segment_descriptor_list", "inline_data"],
        {k: None for k in ["sequential_striped", "list_id_usage", "priority", "g_sense", "immed",
                           "list_identifier", "cscd_descriptor_list", "segment_descriptor_list", "inline_data"]},
        facade="extendedcopy5"),
    Cmd("getlbastatus", "scsi_cdb_getlbastatus", "GetLBAStatus", "GET LBA STATUS", "9E",
        ["lba"], ["alloclen"], {"lba": "STARTING LBA", "alloclen": "ALLOCATION LENGTH"},
        facade="getlbastatus", lookup="suffix", size_args=["alloclen"], defaults={"alloclen": 16384}),
    Cmd("initializeelementstatus", "scsi_cdb_initelementstatus", "InitializeElementStatus",
        "INITIALIZE ELEMENT STATUS", "INITIALIZE_ELEMENT_STATUS", [], [], {}, facade="initializeelementstatus"),
    Cmd("initializeelementstatuswithrange", "scsi_cdb_initelementstatuswithrange",
        "InitializeElementStatusWithRange", "INITIALIZE ELEMENT STATUS WITH RANGE",
        "INITIALIZE_ELEMENT_STATUS_WITH_RANGE", ["xfer", "elements"], ["rng", "fast"],
        {"xfer": "STARTING ELEMENT ADDRESS", "elements": "NUMBER OF ELEMENTS", "rng": "RANGE", "fast": "FAST"},
        facade="initializeelementstatuswithrange", defaults={"rng": 0, "fast": 0}),
    Cmd("inquiry", "scsi_cdb_inquiry", "Inquiry", "INQUIRY", "INQUIRY", [], ["evpd", "page_code", "alloclen"],
        {"evpd": "EVPD", "page_code": "PAGE CODE", "alloclen": "ALLOCATION LENGTH"}, facade="inquiry",
        size_args=["alloclen"], defaults={"evpd": 0, "page_code": 0, "alloclen": 96}),
    Cmd("modesense6", "scsi_cdb_modesense6", "ModeSense6", "MODE SENSE(6)", "MODE_SENSE_6", ["page_code"],
        ["sub_page_code", "dbd", "pc", "alloclen"],
        {"page_code": "PAGE CODE", "sub_page_code": "SUBPAGE CODE", "dbd": "DBD", "pc": "PC",
         "alloclen": "ALLOCATION LENGTH"}, facade="modesense6", size_args=["alloclen"],
        defaults={"sub_page_code": 0, "dbd": 0, "pc": 0, "alloclen": 96}),
    Cmd("modeselect6", "scsi_cdb_modesense6", "ModeSelect6", "MODE SELECT(6)", "MODE_SELECT_6", ["data"],
        ["pf", "sp"], {"data": None, "pf": "PF", "sp": "SP"}, facade="modeselect6", defaults={"pf": 1, "sp": 0}),
    Cmd("modesense10", "scsi_cdb_modesense10", "ModeSense10", "MODE SENSE(10)", "MODE_SENSE_10", ["page_code"],
        ["sub_page_code", "llbaa", "dbd", "pc", "alloclen"],
        {"page_code": "PAGE CODE", "sub_page_code": "SUBPAGE CODE", "llbaa": "LLBAA", "dbd": "DBD", "pc": "PC",
         "alloclen": "ALLOCATION LENGTH"}, facade="modesense10", size_args=["alloclen"],
        defaults={"sub_page_code": 0, "llbaa": 0, "dbd": 0, "pc": 0, "alloclen": 96}),
    Cmd("modeselect10", "scsi_cdb_modesense10", "ModeSelect10", "MODE SELECT(10)", "MODE_SELECT_10", ["data"],
        ["pf", "sp"], {"data": None, "pf": "PF", "sp": "SP"}, facade="modeselect10", defaults={"pf": 1, "sp": 0}),
    Cmd("movemedium", "scsi_cdb_movemedium", "MoveMedium", "MOVE MEDIUM", "MOVE_MEDIUM",
        ["xfer", "source", "dest"], ["invert"],
        {"xfer": "TRANSPORT ELEMENT ADDRESS", "source": "SOURCE ADDRESS", "dest": "DESTINATION ADDRESS",
         "invert": "INVERT"}, facade="movemedium", defaults={"invert": 0}),
    Cmd("opencloseimportexportelement", "scsi_cdb_openclose_exportimport_element", "OpenCloseImportExportElement",
        "OPEN/CLOSE IMPORT/EXPORT ELEMENT", "OPEN_CLOSE_IMPORT_EXPORT_ELEMENT", ["xfer", "acode"], [],
        {"xfer": "ELEMENT ADDRESS", "acode": "ACTION CODE"}, facade="opencloseimportexportelement"),
    Cmd("persistentreservein", "scsi_cdb_persistentreservein", "PersistentReserveIn", "PERSISTENT RESERVE IN",
        "PERSISTENT_RESERVE_IN", ["service_action"], ["alloclen"],
        {"service_action": "SERVICE ACTION", "alloclen": "ALLOCATION LENGTH"}, facade=None,
        size_args=["alloclen"], defaults={"alloclen": 1024}),
    PRIN("prin_readkeys", "PersistentReserveInReadKeys", 0),
    PRIN("prin_readreservation", "PersistentReserveInReadReservation", 1),
    PRIN("prin_reportcapabilities", "PersistentReserveInReportCapabilities", 2),
    PRIN("prin_readfullstatus", "PersistentReserveInReadFullStatus", 3),
    Cmd("persistentreserveout", "scsi_cdb_persistentreserveout", "PersistentReserveOut", "PERSISTENT RESERVE OUT",
        "PERSISTENT_RESERVE_OUT", ["service_action"], ["scope", "pr_type"],
        {"service_action": "SERVICE ACTION", "scope": "SCOPE", "pr_type": "TYPE"}, facade="persistentreserveout",
        defaults={"scope": 0, "pr_type": 0}),
    Cmd("positiontoelement", "scsi_cdb_positiontoelement", "PositionToElement", "POSITION TO ELEMENT",
        "POSITION_TO_ELEMENT", ["xfer", "dest"], ["invert"],
        {"xfer": "TRANSPORT ELEMENT ADDRESS", "dest": "DESTINATION ELEMENT ADDRESS", "invert": "INVERT"},
        facade="positiontoelement", defaults={"invert": 0}),
    Cmd("preventallowmediumremoval", "scsi_cdb_preventallow_mediumremoval", "PreventAllowMediumRemoval",
        "PREVENT ALLOW MEDIUM REMOVAL", "PREVENT_ALLOW_MEDIUM_REMOVAL", [], ["prevent"], {"prevent": "PREVENT"},
        facade="preventallowmediumremoval", defaults={"prevent": 0}),
    Cmd("read10", "scsi_cdb_read10", "Read10", "READ(10)", "READ_10", ["blocksize", "lba", "tl"],
        ["rdprotect", "dpo", "fua", "rarc", "group"], RD, facade="read10",
        defaults={"rdprotect": 0, "dpo": 0, "fua": 0, "rarc": 0, "group": 0}),
    Cmd("read12", "scsi_cdb_read12", "Read12", "READ(12)", "READ_12", ["blocksize", "lba", "tl"],
        ["rdprotect", "dpo", "fua", "rarc", "group"], RD, facade="read12",
        defaults={"rdprotect": 0, "dpo": 0, "fua": 0, "rarc": 0, "group": 0}),
    Cmd("read16", "scsi_cdb_read16", "Read16", "READ(16)", "READ_16", ["blocksize", "lba", "tl"],
        ["rdprotect", "dpo", "fua", "rarc", "group"], RD, facade="read16",
        defaults={"rdprotect": 0, "dpo": 0, "fua": 0, "rarc": 0, "group": 0}),
    Cmd("readcapacity10", "scsi_cdb_readcapacity10", "ReadCapacity10", "READ CAPACITY(10)", "READ_CAPACITY_10",
        [], ["alloclen"], {"alloclen": None}, facade="readcapacity10", size_args=["alloclen"],
        defaults={"alloclen": 8}),
    Cmd("readcapacity16", "scsi_cdb_readcapacity16", "ReadCapacity16", "READ CAPACITY(16)", "9E",
        [], ["alloclen"], {"alloclen": "ALLOCATION LENGTH"}, facade="readcapacity16", lookup="suffix",
        size_args=["alloclen"], defaults={"alloclen": 32}),
    Cmd("readcd", "scsi_cdb_readcd", "ReadCd", "READ CD", "READ_CD", ["lba", "tl"],
        ["est", "dap", "mcsb", "c2ei", "scsb"],
        {"lba": "STARTING LBA", "tl": "TRANSFER LENGTH", "est": "EXPECTED SECTOR TYPE", "dap": "DAP",
         "mcsb": "MAIN CHANNEL SELECTION", "c2ei": "C2 ERROR INFORMATION", "scsb": "SUB-CHANNEL SELECTION"},
        facade="readcd", size_args=["tl"], defaults={"est": 0, "dap": 0, "mcsb": 0, "c2ei": 0, "scsb": 0}),
    Cmd("readdiscinformation", "scsi_cdb_readdiscinformation", "ReadDiscInformation", "READ DISC INFORMATION",
        "READ_DISC_INFORMATION", ["data_type"], ["alloc_len"],
        {"data_type": "DATA TYPE", "alloc_len": "ALLOCATION LENGTH"}, facade="readdiscinformation",
        size_args=["alloc_len"], defaults={"alloc_len": 4096}),
    Cmd("readelementstatus", "scsi_cdb_readelementstatus", "ReadElementStatus", "READ ELEMENT STATUS",
        "READ_ELEMENT_STATUS", ["start", "num"], ["element_type", "voltag", "curdata", "dvcid", "alloclen"],
        {"start": "STARTING ELEMENT ADDRESS", "num": "NUMBER OF ELEMENTS", "element_type": "ELEMENT TYPE CODE",
         "voltag": "VOLTAG", "curdata": "CURDATA", "dvcid": "DVCID", "alloclen": "ALLOCATION LENGTH"},
        facade="readelementstatus", size_args=["alloclen"],
        defaults={"element_type": 0, "voltag": 0, "curdata": 1, "dvcid": 0, "alloclen": 16384}),
    Cmd("reportluns", "scsi_cdb_report_luns", "ReportLuns", "REPORT LUNS", "REPORT_LUNS", [],
        ["report", "alloclen"], {"report": "SELECT REPORT", "alloclen": "ALLOCATION LENGTH"}, facade="reportluns",
        size_args=["alloclen"], defaults={"report": 0, "alloclen": 96}),
    Cmd("reportpriority", "scsi_cdb_report_priority", "ReportPriority", "REPORT PRIORITY", "A3", [],
        ["priority", "alloclen"], {"priority": "PRIORITY REPORTED", "alloclen": "ALLOCATION LENGTH"},
        facade="reportpriority", lookup="suffix", size_args=["alloclen"],
        defaults={"priority": 0, "alloclen": 16384}),
    Cmd("reporttargetportgroups", "scsi_cdb_report_target_port_groups", "ReportTargetPortGroups",
        "REPORT TARGET PORT GROUPS", "A3", [], ["data_format", "alloclen"],
        {"data_format": "PARAMETER DATA FORMAT", "alloclen": "ALLOCATION LENGTH"}, facade="reporttargetportgroups",
        lookup="suffix", size_args=["alloclen"], defaults={"data_format": 0, "alloclen": 16384}),
    Cmd("synchronizecache10", "scsi_cdb_synchronize_cache10", "SynchronizeCache10", "SYNCHRONIZE CACHE(10)",
        "SYNCHRONIZE_CACHE_10", ["lba", "numblks"], ["immed", "group"],
        {"lba": "LBA", "numblks": "NUMBER OF LOGICAL BLOCKS", "immed": "IMMED", "group": "GROUP NUMBER"},
        facade="synchronizecache10", defaults={"immed": 0, "group": 0}),
    Cmd("synchronizecache16", "scsi_cdb_synchronize_cache16", "SynchronizeCache16", "SYNCHRONIZE CACHE(16)",
        "SYNCHRONIZE_CACHE_16", ["lba", "numblks"], ["immed", "group"],
        {"lba": "LBA", "numblks": "NUMBER OF LOGICAL BLOCKS", "immed": "IMMED", "group": "GROUP NUMBER"},
        facade="synchronizecache16", defaults={"immed": 0, "group": 0}),
    Cmd("testunitready", "scsi_cdb_testunitready", "TestUnitReady", "TEST UNIT READY", "TEST_UNIT_READY", [], [],
        {}, facade="testunitready"),
    Cmd("write10", "scsi_cdb_write10", "Write10", "WRITE(10)", "WRITE_10", ["blocksize", "lba", "tl", "data"],
        ["wrprotect", "dpo", "fua", "group"], WR, facade="write10",
        defaults={"wrprotect": 0, "dpo": 0, "fua": 0, "group": 0}),
    Cmd("write12", "scsi_cdb_write12", "Write12", "WRITE(12)", "WRITE_12", ["blocksize", "lba", "tl", "data"],
        ["wrprotect", "dpo", "fua", "group"], WR, facade="write12",
        defaults={"wrprotect": 0, "dpo": 0, "fua": 0, "group": 0}),
    Cmd("write16", "scsi_cdb_write16", "Write16", "WRITE(16)", "WRITE_16", ["blocksize", "lba", "tl", "data"],
        ["wrprotect", "dpo", "fua", "group"], WR, facade="write16",
        defaults={"wrprotect": 0, "dpo": 0, "fua": 0, "group": 0}),
    Cmd("writesame10", "scsi_cdb_writesame10", "WriteSame10", "WRITE SAME(10)", "WRITE_SAME_10",
        ["blocksize", "lba", "nb", "data"], ["wrprotect", "anchor", "unmap", "group"], WS, facade="writesame10",
        defaults={"wrprotect": 0, "anchor": 0, "unmap": 0, "group": 0}),
    Cmd("writesame16", "scsi_cdb_writesame16", "WriteSame16", "WRITE SAME(16)", "WRITE_SAME_16",
        ["blocksize", "lba", "nb", "data"], ["wrprotect", "anchor", "unmap", "ndob", "group"],
        dict(WS, ndob="NDOB"), facade="writesame16",
        defaults={"wrprotect": 0, "anchor": 0, "unmap": 0, "ndob": 0, "group": 0}),
]

BY_NAME = {c.name: c for c in COMMANDS}
assert len(COMMANDS) == 42, len(COMMANDS)
