"""Shared machinery of the property-based checks: case accounting, Hypothesis driver,
violation/replay records, known-finding matching.  See DESIGN.md section 3."""
import collections
import contextlib
import hashlib
import json
import os
import sys
import time
import traceback

VERIF = os.path.dirname(os.path.dirname(os.path.abspath(__file__)))
REPO = os.path.realpath(os.environ.get("PYSCSI_VERIF_REPO", "/repo"))
# evidence/ and replays/ land under OUT (default /verif; the sensitivity driver redirects it)
OUT = os.environ.get("VERIF_OUT", VERIF)


class Violation(Exception):
    """An oracle failure on one generated case (never a harness problem)."""

    def __init__(self, kind, detail=None):
        Exception.__init__(self, kind)
        self.kind = kind
        self.detail = detail or {}


class HarnessError(Exception):
    """The harness itself is broken or starved: exit 2, never a VIOLATION."""


# ----------------------------------------------------------------------------------------
# importing the code under test
# ----------------------------------------------------------------------------------------
def import_pyscsi(sgio=True, iscsi=True):
    """Install the binding stand-ins (or import blockers) and import pyscsi from REPO.

    `import pyscsi` imports scsi_device (through __all__), so presence/absence of the
    bindings has to be decided before the first import of a process."""
    if "pyscsi" in sys.modules:
        raise HarnessError("pyscsi imported before the stand-ins were installed")
    if REPO not in sys.path:
        sys.path.insert(0, REPO)
    from pbt.standins import install

    install(sgio=sgio, iscsi=iscsi)
    import pyscsi  # noqa

    where = os.path.realpath(pyscsi.__file__)
    if not where.startswith(REPO + os.sep):
        raise HarnessError("pyscsi imported from %s, expected under %s" % (where, REPO))
    return pyscsi


# ----------------------------------------------------------------------------------------
# canonical (JSON) form of cases
# ----------------------------------------------------------------------------------------
def enc(x):
    if isinstance(x, bool) or x is None or isinstance(x, (int, str)):
        return x
    if isinstance(x, float):
        return {"$f": repr(x)}
    if isinstance(x, bytes):
        return {"$b": x.hex()}
    if isinstance(x, bytearray):
        return {"$ba": bytes(x).hex()}
    if isinstance(x, memoryview):
        return {"$b": bytes(x).hex()}
    if isinstance(x, tuple):
        return {"$t": [enc(i) for i in x]}
    if isinstance(x, list):
        return [enc(i) for i in x]
    if isinstance(x, (set, frozenset)):
        return {"$s": sorted((enc(i) for i in x), key=lambda v: json.dumps(v, sort_keys=True))}
    if isinstance(x, dict):
        if all(isinstance(k, str) and not k.startswith("$") for k in x):
            return {k: enc(v) for k, v in x.items()}
        return {"$d": [[enc(k), enc(v)] for k, v in x.items()]}
    return {"$r": repr(x)[:200]}


def dec(x):
    if isinstance(x, list):
        return [dec(i) for i in x]
    if isinstance(x, dict):
        if len(x) == 1:
            (k, v), = x.items()
            if k == "$b":
                return bytes.fromhex(v)
            if k == "$ba":
                return bytearray.fromhex(v)
            if k == "$t":
                return tuple(dec(i) for i in v)
            if k == "$s":
                return set(dec(i) for i in v)
            if k == "$d":
                return {dec(a): dec(b) for a, b in v}
            if k == "$f":
                return float(v)
            if k == "$r":
                return v
        return {k: dec(v) for k, v in x.items()}
    return x


def canon(x):
    return json.dumps(enc(x), sort_keys=True, separators=(",", ":"))


def h64(s):
    return hashlib.blake2b(s.encode() if isinstance(s, str) else s, digest_size=8).digest()


def derive_seed(*parts):
    return int.from_bytes(h64("|".join(str(p) for p in parts)), "big")


def short(x, n=700):
    s = canon(x)
    return json.loads(s) if len(s) <= n else s[:n] + "...(%d chars)" % len(s)


def slug(s):
    keep = "".join(c if c.isalnum() else "_" for c in s)
    return keep[:80] + "_" + h64(s).hex()[:8]


def innermost_pyscsi_frame(exc):
    tb = exc.__traceback__
    name = "?"
    while tb is not None:
        fn = tb.tb_frame.f_code.co_filename
        if os.sep + "pyscsi" + os.sep in fn and "/pbt/" not in fn:
            name = tb.tb_frame.f_code.co_name
        tb = tb.tb_next
    return name


@contextlib.contextmanager
def lib(what=""):
    """Wrap a call into the library: any exception it lets escape becomes a Violation
    with signature kind exc:<Type>@<innermost pyscsi function>."""
    try:
        yield
    except Violation:
        raise
    except Exception as e:  # noqa
        raise Violation(
            "exc:%s@%s" % (type(e).__name__, innermost_pyscsi_frame(e)),
            {"what": what, "error": repr(e)[:300]},
        ) from e


def expect(cond, kind, **detail):
    if not cond:
        raise Violation(kind, {k: short(v, 400) for k, v in detail.items()})


# ----------------------------------------------------------------------------------------
# context of one run (one shard)
# ----------------------------------------------------------------------------------------
class Ctx:
    MAX_SAMPLES = 24

    def __init__(self, prop, tier, seed, shard=0, nshards=1, module=None):
        self.prop, self.tier, self.seed = prop, tier, seed
        self.shard, self.nshards = shard, nshards
        self.module = module
        self.t0 = time.time()
        self.evaluations = 0
        self.nontrivial = set()
        self.classes = collections.Counter()
        self.subjects = collections.OrderedDict()
        self.samples = []
        self._samples_per_subject = collections.Counter()
        self.violations = collections.OrderedDict()  # signature -> record
        self.known_sigs = {}  # signature -> what
        self.known_lines = []
        self.known_notes = []
        self.excluded_known = collections.Counter()
        self.excluded_found = collections.Counter()
        self.extra = {}
        self.exhaustive_parts = []
        self.replaying = False

    # -- sizing ---------------------------------------------------------------------
    def n(self, quick, thorough):
        """Examples for this shard: the tier's total spread over the shards."""
        total = thorough if self.tier == "thorough" else quick
        scale = float(os.environ.get("VERIF_N_SCALE", "1") or 1)  # sensitivity sweeps only (tools/layout_sensitivity.py)
        if scale != 1:
            total = max(self.nshards, int(total * scale))
        return max(1, -(-total // self.nshards))

    @property
    def thorough(self):
        return self.tier == "thorough"

    def mine(self, index):
        """Partition of enumerated spaces over shards."""
        return index % self.nshards == self.shard

    # -- accounting -----------------------------------------------------------------
    def record(self, subject, case, nontrivial, classes=()):
        self.evaluations += 1
        s = self.subjects.setdefault(subject, [0, 0])
        s[0] += 1
        for c in classes:
            self.classes[c] += 1
        if nontrivial:
            hv = h64(subject + "|" + canon(case))
            if hv not in self.nontrivial:
                self.nontrivial.add(hv)
                s[1] += 1
                if (
                    len(self.samples) < self.MAX_SAMPLES
                    and self._samples_per_subject[subject] < 1
                ):
                    self._samples_per_subject[subject] += 1
                    self.samples.append({"subject": subject, "case": short(case)})

    def record_bulk(self, subject, evaluations, distinct_nontrivial, sample=None, classes=None):
        """For enumerated spaces whose cases are distinct by construction."""
        self.evaluations += evaluations
        s = self.subjects.setdefault(subject, [0, 0])
        s[0] += evaluations
        s[1] += distinct_nontrivial
        base = "%s|bulk|%d|" % (subject, self.shard)
        for i in range(distinct_nontrivial):
            self.nontrivial.add(h64(base + str(i)))
        if classes:
            self.classes.update(classes)
        if sample is not None and len(self.samples) < self.MAX_SAMPLES + 8:
            self.samples.append({"subject": subject, "case": short(sample)})

    def signature(self, subject, kind):
        return "%s|%s|%s" % (self.prop, subject, kind)

    # -- violations -----------------------------------------------------------------
    def violation(self, subject, case, v):
        sig = self.signature(subject, v.kind)
        if sig in self.violations:
            return sig
        rec = {
            "property": self.prop,
            "subject": subject,
            "signature": sig,
            "kind": v.kind,
            "detail": enc(v.detail),
            "case": enc(case),
            "seed": self.seed,
            "tier": self.tier,
        }
        if not self.replaying:
            d = os.path.join(OUT, "replays", self.prop)
            os.makedirs(d, exist_ok=True)
            path = os.path.join(d, slug(sig) + ".json")
            with open(path, "w") as f:
                json.dump(rec, f, indent=1, sort_keys=True)
            rec["replay"] = os.path.relpath(path, VERIF) if OUT == VERIF else path
        self.violations[sig] = rec
        return sig

    def handle(self, subject, case, v):
        """Dispatch a Violation raised for one case: known finding -> counted and
        swallowed (returns True), already reported signature -> swallowed, else raise."""
        sig = self.signature(subject, v.kind)
        if sig in self.known_sigs:
            self.excluded_known[sig] += 1
            return True
        if sig in self.violations:
            self.excluded_found[sig] += 1
            return True
        return False

    # -- known findings ---------------------------------------------------------------
    def load_known(self):
        path = os.path.join(VERIF, "known_findings.json")
        if not os.path.exists(path):
            return
        with open(path) as f:
            entries = json.load(f).get("findings", [])
        for e in entries:
            if e.get("property") != self.prop or e.get("status") != "known":
                continue
            ex = e["example"]
            try:
                self.replaying = True
                got = replay_case(self, ex["subject"], dec(ex["case"]))
            finally:
                self.replaying = False
            sig = e["signature"]
            if got is not None and self.signature(ex["subject"], got.kind) == sig:
                self.known_sigs[sig] = e["what"]
                self.known_lines.append(
                    "KNOWN-FINDING: property=%s %s [%s]" % (self.prop, e["what"], sig)
                )
            else:
                self.known_notes.append(
                    "known finding no longer reproduces (nothing suppressed): " + sig
                )

    def replay_regressions(self):
        """Committed minimal reproductions of repaired defects: replayed first in every tier
        (shard 0), so that a regression is reported in seconds.  Nothing is suppressed."""
        d = os.path.join(VERIF, "pbt", "regress", self.prop)
        if self.shard != 0 or not os.path.isdir(d):
            return
        n = 0
        for name in sorted(os.listdir(d)):
            if not name.endswith(".json"):
                continue
            with open(os.path.join(d, name)) as f:
                rec = json.load(f)
            case = dec(rec["case"])
            got = replay_case(self, rec["subject"], case)
            n += 1
            if got is not None and not self.handle(rec["subject"], case, got):
                self.violation(rec["subject"], case, got)
        self.extra["regression_replays"] = n

    # -- fragments ------------------------------------------------------------------
    def fragment(self):
        return {
            "evaluations": self.evaluations,
            "nontrivial_hex": [h.hex() for h in self.nontrivial],
            "classes": dict(self.classes),
            "subjects": {k: v for k, v in self.subjects.items()},
            "samples": self.samples,
            "violations": list(self.violations.values()),
            "known_lines": self.known_lines,
            "known_notes": self.known_notes,
            "excluded_known": dict(self.excluded_known),
            "excluded_found": dict(self.excluded_found),
            "extra": self.extra,
            "exhaustive_parts": self.exhaustive_parts,
            "wall_s": time.time() - self.t0,
        }


# ----------------------------------------------------------------------------------------
# heartbeat: lets the parent process see a case that never comes back (work done inside C
# code - a regular expression, a huge allocation - produces no LINE events and cannot be
# interrupted from inside the interpreter)
# ----------------------------------------------------------------------------------------
_HB = {"fd": None}


def heartbeat(subject=None, case=None):
    """heartbeat(subject, case) before a case, heartbeat() after it.  No-op unless the parent
    asked for it (VERIF_HEARTBEAT=<file>)."""
    path = os.environ.get("VERIF_HEARTBEAT")
    if not path:
        return
    if _HB["fd"] is None:
        _HB["fd"] = os.open(path, os.O_WRONLY | os.O_CREAT, 0o600)
    data = b"-" if subject is None else json.dumps({"subject": subject, "case": enc(case)}).encode()
    os.pwrite(_HB["fd"], data, 0)
    os.ftruncate(_HB["fd"], len(data))


def replay_case(ctx, subject, case):
    """Re-execute one saved case through the property module; returns the Violation or None."""
    try:
        ctx.module.replay(ctx, subject, case)
    except Violation as v:
        return v
    return None


# ----------------------------------------------------------------------------------------
# Hypothesis driver
# ----------------------------------------------------------------------------------------
def hyp_settings(n, shrink=True):
    from hypothesis import HealthCheck, Phase, Verbosity, settings

    phases = [Phase.generate] + ([Phase.shrink] if shrink else [])
    return settings(
        max_examples=n,
        database=None,
        deadline=None,
        derandomize=False,
        report_multiple_bugs=False,
        print_blob=False,
        verbosity=Verbosity.quiet,
        phases=phases,
        suppress_health_check=[
            HealthCheck.too_slow,
            HealthCheck.data_too_large,
            HealthCheck.large_base_example,
        ],
    )


def guarded(check, case):
    """Run one oracle.  Every call into the library sits in a lib() block, which turns the library's own
    exceptions into violations.  What can still escape is a type confusion in the oracle itself when the
    library hands back something that is not the kind of value the property speaks of (an int where a byte
    string belongs, None where a buffer belongs): bytes()/len()/indexing of such a value fails with
    TypeError / AttributeError / OverflowError.  The checks are quiet on the unchanged tree, so such a
    failure is caused by the value the library returned; it is reported as a violation, with the place,
    rather than as a harness error.  Other exception types (OSError, MemoryError, KeyError, ...) stay
    harness errors (exit 2)."""
    try:
        return check(case)
    except Violation:
        raise
    except (TypeError, AttributeError, OverflowError) as e:
        import traceback

        tb = traceback.extract_tb(e.__traceback__)
        where = next(("%s:%d %s" % (os.path.basename(f.filename), f.lineno, f.name) for f in reversed(tb)
                      if os.sep + "pbt" + os.sep in f.filename), "?")
        raise Violation("unusable_value:%s" % type(e).__name__, {"error": repr(e)[:200], "where": where})


def search(ctx, subject, strategy, check, n, max_causes=4):
    """Generated-input search for one subject.

    check(case) runs the oracle; it raises Violation on an oracle failure and returns
    (nontrivial, classes) or a bool or None.  Hypothesis stops at the first failure, so
    after a failure its signature is excluded (counted) and the search is repeated to
    find root causes hidden behind it."""
    import hypothesis
    from hypothesis import given

    last = {}
    guard = {"t_fail": None, "failing": set()}
    budget = 60.0 if ctx.thorough else 20.0

    def body(case):
        # shrink guard: once shrinking has used its budget, every candidate that has not
        # already failed is answered "passes" without running it, so the
        # shrinker stops quickly and its final replay of the best case still fails.
        if guard["t_fail"] is not None and time.time() - guard["t_fail"] > budget:
            if h64(canon(case)) not in guard["failing"]:
                return
        try:
            r = guarded(check, case)
        except Violation as v:
            ctx.evaluations += 1
            if ctx.handle(subject, case, v):
                return
            if guard["t_fail"] is None:
                guard["t_fail"] = time.time()
            guard["failing"].add(h64(canon(case)))
            last["case"] = case
            last["v"] = v
            raise
        if r is None:
            r = (False, ())
        elif isinstance(r, bool):
            r = (r, ())
        ctx.record(subject, case, r[0], r[1])

    for attempt in range(max_causes):
        test = hypothesis.seed(derive_seed(ctx.seed, ctx.prop, subject, ctx.shard, attempt))(
            hyp_settings(n)(given(strategy)(body))
        )
        guard["t_fail"] = None
        guard["failing"] = set()
        try:
            test()
            return
        except Violation as v:
            ctx.violation(subject, last.get("case"), v)
        except hypothesis.errors.Flaky as e:
            # The oracle failed on a generated case and passed when Hypothesis re-ran the very
            # same case.  The harness is deterministic (no clock, no RNG of its own), so the
            # code under test answered differently for equal inputs: its result depends on
            # earlier calls.  The observed oracle failure is real; report it, marked as
            # history dependent (the saved case may pass when replayed in isolation).
            if "v" not in last:
                raise HarnessError("flaky without a recorded failure in %s/%s: %r" % (ctx.prop, subject, e))
            v0 = last["v"]
            v = Violation("history_dependent:" + v0.kind, dict(v0.detail, note="same case passed when re-executed: the result depends on earlier calls"))
            if not ctx.handle(subject, last["case"], v):
                ctx.violation(subject, last["case"], v)
            return
        except hypothesis.errors.HypothesisException as e:
            raise HarnessError("hypothesis error in %s/%s: %r" % (ctx.prop, subject, e))
        except Exception as e:  # noqa
            # anything else comes out of Hypothesis itself (seen: the shrinker's ordering of text choices raising
            # ValueError for a non-ASCII character).  If the oracle had already failed on a generated case,
            # that failure stands: report it with the last failing case (not fully shrunk).
            if "v" not in last:
                raise
            v0 = last["v"]
            if not ctx.handle(subject, last["case"], v0):
                ctx.violation(subject, last["case"], Violation(v0.kind, dict(v0.detail, note="shrinking aborted: %r" % (e,))))
            return


def run_one(ctx, subject, case, check):
    """One deterministic (enumerated) case through the same accounting/violation path."""
    try:
        r = guarded(check, case)
    except Violation as v:
        ctx.evaluations += 1
        if not ctx.handle(subject, case, v):
            ctx.violation(subject, case, v)
        return False
    if r is None:
        r = (False, ())
    elif isinstance(r, bool):
        r = (r, ())
    ctx.record(subject, case, r[0], r[1])
    return True


def search_machine(ctx, subject, machine_cls, n, steps=40, max_causes=3):
    """Stateful (rule-based) search.  `machine_cls` is a RuleBasedStateMachine subclass whose
    instances keep the executed operations in `self.log` and expose `nontrivial()` / `classes()`;
    every executed history is accounted in teardown; the last failing history (the shrunk one,
    which Hypothesis replays last) becomes the replay case."""
    import hypothesis
    from hypothesis import HealthCheck, Phase, Verbosity, settings
    from hypothesis.stateful import run_state_machine_as_test

    last = {}

    class M(machine_cls):
        def __init__(self):
            machine_cls.__init__(self)
            self._ctx, self._subject, self._last = ctx, subject, last

        def teardown(self):
            try:
                machine_cls.teardown(self)
            finally:
                if not getattr(self, "failed", False):
                    ctx.record(subject, list(self.log), self.nontrivial(), self.classes())

    M.__name__ = machine_cls.__name__
    for attempt in range(max_causes):
        st_ = settings(max_examples=n, stateful_step_count=steps, database=None, deadline=None,
                       derandomize=False, report_multiple_bugs=False, print_blob=False,
                       verbosity=Verbosity.quiet, phases=[Phase.generate, Phase.shrink],
                       suppress_health_check=list(HealthCheck))
        try:
            run_state_machine_as_test(
                hypothesis.seed(derive_seed(ctx.seed, ctx.prop, subject, ctx.shard, attempt))(M), settings=st_)
            return
        except Violation as v:
            ctx.violation(subject, last.get("log"), v)
        except hypothesis.errors.Flaky as e:
            if "v" not in last:
                raise HarnessError("flaky state machine without a recorded failure: %r" % (e,))
            v = Violation("history_dependent:" + last["v"].kind, dict(last["v"].detail))
            ctx.violation(subject, last.get("log"), v)
            return
        except hypothesis.errors.HypothesisException as e:
            raise HarnessError("hypothesis error in %s/%s: %r" % (ctx.prop, subject, e))


def machine_step(machine, fn):
    """run one operation of a state machine: oracle failures are dispatched like in search()."""
    try:
        fn()
    except Violation as v:
        ctx, subject = machine._ctx, machine._subject
        ctx.evaluations += 1
        if ctx.handle(subject, list(machine.log), v):
            return
        machine.failed = True
        machine._last["log"] = list(machine.log)
        machine._last["v"] = v
        raise
