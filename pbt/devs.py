"""Plain device objects for facade-level checks (no transport): they record what the facade
hands to execute() and let a callback play the target."""

TYPE_FOR_TABLE = {"spc": 0x03, "sbc": 0x00, "ssc": 0x01, "smc": 0x08, "mmc": 0x05}


class RecDevice(object):
    """A device object as the facade expects it (opcodes, devicetype, execute, close)."""

    def __init__(self, devtype=0, responder=None, qualifier=0):
        import pyscsi.pyscsi.scsi_enum_command as ec

        self._opcodes = ec.spc
        self.devtype_to_report = devtype
        self.qualifier = qualifier
        self.responder = responder
        self.calls = []
        self.closed = 0

    @property
    def opcodes(self):
        return self._opcodes

    @opcodes.setter
    def opcodes(self, v):
        self._opcodes = v

    def execute(self, cmd, en_raw_sense=False):
        rec = {
            "cmd": cmd,
            "cdb": bytes(cmd.cdb),
            "datain_id": id(cmd.datain),
            "dataout_id": id(cmd.dataout),
            "datain_len": None if cmd.datain is None else len(cmd.datain),
            "dataout": None if cmd.dataout is None else bytes(cmd.dataout),
            "en_raw_sense": en_raw_sense,
            "result_at_execute": cmd.result,
        }
        self.calls.append(rec)
        cdb = rec["cdb"]
        if cdb[0] == 0x12 and len(cdb) == 6 and not (cdb[1] & 1) and self.responder is None:
            # standard INQUIRY: report the configured peripheral device type
            if len(cmd.datain) > 0:
                cmd.datain[0] = ((self.qualifier & 7) << 5) | (self.devtype_to_report & 0x1F)
            if len(cmd.datain) > 4:
                cmd.datain[4] = max(0, min(255, len(cmd.datain) - 5))
            return
        if self.responder is not None:
            self.responder(self, cmd, rec)

    def open(self):
        pass

    def close(self):
        self.closed += 1


TYPES_FOR_TABLE = {"spc": [0x03], "sbc": [0x00, 0x04, 0x07], "ssc": [0x01], "smc": [0x08], "mmc": [0x05]}


def attach(table, blocksize=0, responder=None, variant=None):
    """SCSI facade attached (through its real constructor) to a recording device whose
    peripheral device type selects `table`.  With `variant` (an int) the device type is one of
    the types the property maps to that table and the selection made by attach is kept and
    verified; without it the table is forced after attaching."""
    import pyscsi.pyscsi.scsi_enum_command as ec
    from pyscsi.pyscsi.scsi import SCSI

    if variant is not None:
        from pbt.common import Violation

        types = TYPES_FOR_TABLE[table]
        devtype = types[variant % len(types)]
        dev = RecDevice(devtype)
        s = SCSI(dev, blocksize)
        if dev.opcodes is not getattr(ec, table):
            raise Violation("mismatch:attach_selected_another_command_set",
                            {"devtype": devtype, "want": table,
                             "got": [t for t in TYPES_FOR_TABLE if getattr(ec, t) is dev.opcodes]})
        dev.calls.clear()
        dev.responder = responder
        return s, dev
    dev = RecDevice(TYPE_FOR_TABLE[table])
    s = SCSI(dev, blocksize)
    dev.opcodes = getattr(ec, table)
    dev.calls.clear()
    dev.responder = responder
    return s, dev
