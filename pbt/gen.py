"""Hypothesis strategies shared by the CDB-level properties (C01 C02 C03 C13 C17 C09)."""
from hypothesis import strategies as st

from pbt.stdspec import cdb as S

BLOCKSIZES = [1, 2, 16, 512, 520, 4096]
BIG = 1 << 26  # largest buffer a generated case really allocates (bytes)
MID = 1 << 16


def fv(width, cap=None):
    """boundary-biased value of a `width`-bit field (optionally capped)."""
    top = (1 << width) - 1
    if cap is not None:
        top = min(top, cap)
    if top <= 0:
        return st.just(0)
    if top == 1 and width == 1:
        # one-bit flags: callers pass 0/1 and, as naturally, False/True (bool is an int in range)
        return st.sampled_from([0, 1, 0, 1, 0, 1, 0, 1, 0, 1, False, True])
    edges = {0, 1, top, top - 1}
    i = 0
    while (1 << i) <= top:
        edges.add(1 << i)
        edges.add((1 << i) - 1)
        i += 1
    if width >= 8:
        alt = int("55" * ((width + 7) // 8), 16) & ((1 << width) - 1)
        if alt <= top:
            edges.add(alt)
    return st.one_of(st.sampled_from(sorted(edges)), st.integers(0, top))


def sized(width, unit=1, rare_big=True):
    """value of a field that sizes a really allocated buffer of value*unit bytes."""
    unit = max(1, unit)
    top = (1 << width) - 1
    small = min(top, 64)
    mid = min(top, max(1, MID // unit))
    big = min(top, max(1, BIG // unit))
    choices = [st.integers(0, small)] * 8 + [fv(width, mid)] * 10
    if rare_big and big > mid:
        choices += [fv(width, big)]
    return st.integers(0, len(choices) - 1).flatmap(lambda i: choices[i])


def blocksize():
    return st.one_of(st.sampled_from(BLOCKSIZES), st.integers(1, 8192))


def payload(n, rich=True):
    """n bytes of write data: random when small, cheap patterns when large."""
    if n <= 4096 and rich:
        return st.one_of(st.binary(min_size=n, max_size=n), st.just(bytes(n)),
                         st.binary(min_size=n, max_size=n).map(bytearray))
    return st.integers(0, 255).map(lambda b: {"fill": b, "n": n})


MODE_PAGE_MIN = {"medium_type": 0, "device_specific_parameter": 0,
                 "mode_pages": [{"ps": 0, "spf": 0, "page_code": 0x0A, "tst": 0, "swp": 1}]}


def std_width(cmd, arg):
    f = cmd.fmap.get(arg)
    if f is None:
        return None
    if f == "ATA LBA":
        return 24 if cmd.std.endswith("(12)") else 48
    return S.CDB[cmd.std]["fields"][f][2]


@st.composite
def args(draw, cmd, full_width=False, all_optional=None):
    """Library-argument dict for `cmd`.  full_width=True draws every CDB field over its whole
    width (for the buffer-less marshall path); otherwise fields that size a buffer are bounded
    (DESIGN.md C01 B).  all_optional: None = random subset, True = all, False = none."""
    a = {}
    names = list(cmd.pos) + list(cmd.opt)
    if all_optional is None:
        keep = {k: draw(st.booleans()) for k in cmd.opt}
    else:
        keep = {k: all_optional for k in cmd.opt}
    fam = cmd.name
    bs = None
    if "blocksize" in cmd.pos:
        bs = draw(blocksize())
        a["blocksize"] = bs
    for k in names:
        if k in a:
            continue
        if k in cmd.opt and not keep[k]:
            continue
        w = std_width(cmd, k)
        if fam.startswith("atapassthrough"):
            continue  # handled below
        if k == "data" and bs is not None:
            continue  # after tl is known
        if k == "service_action" and fam == "persistentreserveout":
            a[k] = draw(st.one_of(st.integers(0, 8), fv(5)))
        elif w is not None and not full_width and (k in cmd.size_args or (k == "tl" and bs is not None)):
            unit = bs if (k == "tl" and bs is not None) else (3072 if fam == "readcd" else 1)
            # READ CD: the library's decoder re-slices the remaining buffer once per sector (quadratic in the
            # transfer size): tens of megabytes take minutes to decode, so transfers stay small here
            a[k] = draw(sized(w, unit, rare_big=(fam != "readcd")))
        elif w is not None:
            a[k] = draw(fv(w))
        elif k == "alloclen":  # READ CAPACITY(10): no CDB field
            a[k] = draw(st.one_of(st.just(8), st.integers(8, 64), sized(16)))
            a[k] = max(a[k], 8)
        elif k == "data" and fam.startswith("modeselect"):
            a[k] = dict(MODE_PAGE_MIN, mode_pages=[dict(MODE_PAGE_MIN["mode_pages"][0])])
        elif fam.startswith("extendedcopy"):
            if k in ("target_descriptor_list", "cscd_descriptor_list", "segment_descriptor_list"):
                a[k] = []
            elif k == "inline_data":
                a[k] = bytearray(draw(st.binary(max_size=8)))
            else:
                wid = {"list_identifier": 8 if fam.endswith("4") else 32, "priority": 3,
                       "list_id_usage": 2}.get(k, 1)
                a[k] = draw(fv(wid))
        else:
            raise AssertionError("no generator for %s.%s" % (cmd.name, k))
    if "data" in names and bs is not None and "data" not in a:
        if fam.startswith("writesame"):
            n = bs
            if a.get("ndob"):
                a["data"] = draw(st.sampled_from([None, bytes(bs)]))
            else:
                a["data"] = draw(payload(n))
        else:
            n = bs * a["tl"]
            if a.get("wrprotect") and draw(st.booleans()):
                # protection information travels with the data: tl blocks of blocksize + 8 bytes
                n = (bs + 8) * a["tl"]
            a["data"] = draw(payload(n))
    if fam.startswith("atapassthrough"):
        a.update(draw(ata_args(cmd, keep, full_width)))
    return a


@st.composite
def ata_args(draw, cmd, keep, full_width=False):
    w16 = cmd.std.endswith("(16)")
    a = {
        "protocal": draw(fv(4)), "t_length": draw(st.integers(0, 3)), "byte_block": draw(st.integers(0, 1)),
        "t_dir": draw(st.integers(0, 1)), "t_type": draw(st.integers(0, 1)), "off_line": draw(fv(2)),
        "lba": draw(fv(48 if w16 else 24)), "command": draw(fv(8)),
    }
    fw = 16 if w16 else 8
    # FEATURES / COUNT size the buffer when T_LENGTH selects them
    blk = 1
    want_bs = a["byte_block"] and a["t_type"] and a["t_length"]
    bsz = draw(st.sampled_from([1, 2, 512, 520, 1024])) if (want_bs or draw(st.booleans())) else None
    if a["byte_block"] and a["t_length"]:
        blk = bsz if a["t_type"] else 512
    cap = None if full_width else max(1, BIG // max(1, blk or 1))
    a["fetures"] = draw(fv(fw, cap if a["t_length"] == 1 else None))
    a["count"] = draw(fv(fw, cap if a["t_length"] == 2 else None))
    if keep.get("blocksize") or want_bs:
        a["blocksize"] = bsz if bsz is not None else 512
    if keep.get("extra_tl") or (a["t_length"] == 3 and draw(st.booleans())):
        # the TPSIU transfer length is not a CDB field: it may exceed 16 bits
        a["extra_tl"] = draw(st.one_of(st.none(), st.integers(0, 64), fv(16, cap), fv(24, cap)))
    for k, wd in (("ck_cond", 1), ("device", 8), ("control", 8)):
        if keep.get(k):
            a[k] = draw(fv(wd))
    if w16 and keep.get("extend"):
        a["extend"] = draw(st.integers(0, 1))
    if keep.get("data"):
        a["data"] = "AUTO"  # replaced by a buffer of exactly the announced length by the caller
        if a["t_length"] == 3 and not a.get("extra_tl") and draw(st.booleans()):
            # the TPSIU carries the length and the initiator does not state it: the caller's buffer is the transfer
            a["data"] = {"tpsiu": draw(st.sampled_from([1, 8, 512, 520]))}
    return a


def ata_expected_len(a):
    """SAT-3 12.2.2: transfer size announced by an ATA PASS-THROUGH CDB (bytes), from the
    caller's arguments: T_LENGTH selects FEATURES / COUNT / TPSIU; BYTE_BLOCK and T_TYPE the unit."""
    tl = {0: 0, 1: a["fetures"], 2: a["count"], 3: a.get("extra_tl") or 0}[a["t_length"]]
    if a["t_length"] == 0:
        return 0
    d = a.get("data")
    if a["t_length"] == 3 and not a.get("extra_tl") and d is not None and not isinstance(d, str):
        return d["tpsiu"] if isinstance(d, dict) else len(d)
    if not a["byte_block"]:
        unit = 1
    elif not a["t_type"]:
        unit = 512
    else:
        unit = a.get("blocksize", 0)
    return tl * unit


def materialize(a):
    """replace symbolic buffers ({"fill": b, "n": n} and "AUTO") by real ones."""
    a = dict(a)
    d = a.get("data")
    if isinstance(d, dict) and "fill" in d:
        a["data"] = bytes([d["fill"]]) * d["n"]
    elif isinstance(d, dict) and "tpsiu" in d:
        a["data"] = bytearray(d["tpsiu"])
    elif d == "AUTO":
        n = ata_expected_len(a)
        a["data"] = bytearray(n) if n else None
    return a


def minimal(cmd):
    """cheapest valid argument dict for `cmd` (used to instantiate a class once)."""
    a = {}
    for p in list(cmd.pos) + [f for f in cmd.fpos if f not in cmd.pos]:
        if p in cmd.defaults:
            a[p] = cmd.defaults[p]
        else:
            a[p] = 0
    if "blocksize" in a:
        a["blocksize"] = 1
    if "data" in cmd.pos:
        if cmd.name.startswith("modeselect"):
            a["data"] = dict(MODE_PAGE_MIN, mode_pages=[dict(MODE_PAGE_MIN["mode_pages"][0])])
        elif cmd.name.startswith("writesame"):
            a["data"] = bytes(1)
        else:
            a["data"] = bytes(0)
    return a
