"""Sensitivity driver (not a registered check).

    python3 pbt/mutants.py [--only C10[,C14]] [--tier quick] [--jobs 8] [--seeded]

For each planted mutant (pbt/mutants_list.py: single-site textual edits) or seeded change
(/verif/seeded/<id>/patch.diff): copy /repo's working tree to /dev/shm, apply it, run the
repository's own test-suite (must stay green), run the property's check with
PYSCSI_VERIF_REPO pointing at the copy (expects exit 1 + replay), delete the copy.
Results go to /verif/sensitivity/results.json (kill matrix)."""
import argparse
import concurrent.futures
import json
import os
import shutil
import subprocess
import sys
import tempfile
import time

HERE = os.path.dirname(os.path.abspath(__file__))
VERIF = os.path.dirname(HERE)
sys.path.insert(0, VERIF)
REPO = "/repo"
PY = "/venv/bin/python"


def scratch_root():
    return "/dev/shm" if os.path.isdir("/dev/shm") else tempfile.gettempdir()


def make_copy(tag):
    d = os.path.join(scratch_root(), "verif-mut-%s-%d" % (tag, os.getpid()))
    shutil.rmtree(d, ignore_errors=True)
    os.makedirs(d)
    for item in ("pyscsi", "tests", "tools", "examples", "setup.py", "setup.cfg", "pyproject.toml"):
        src = os.path.join(REPO, item)
        if os.path.isdir(src):
            shutil.copytree(src, os.path.join(d, item), ignore=shutil.ignore_patterns("__pycache__"))
        elif os.path.exists(src):
            shutil.copy(src, d)
    return d


def run_tests(d):
    env = dict(os.environ, PYTHONDONTWRITEBYTECODE="1")
    env.pop("PYTHONPATH", None)
    p = subprocess.run([PY, "-B", "-m", "pytest", "-q", "-p", "no:cacheprovider", "-x", "tests"],
                       cwd=d, env=env, capture_output=True, text=True, timeout=600)
    tail = (p.stdout.strip().splitlines() or ["?"])[-1]
    return p.returncode == 0, tail


def run_check(d, prop, tier, seed, out):
    env = dict(os.environ, PYSCSI_VERIF_REPO=d, VERIF_OUT=out, VERIF_SEED=str(seed))
    t0 = time.time()
    p = subprocess.run([os.path.join(VERIF, "check"), prop, "--tier", tier], cwd=VERIF, env=env,
                       capture_output=True, text=True, timeout=3600)
    lines = [l for l in p.stdout.splitlines() if l.startswith("VIOLATION") or l.startswith("  signature")]
    return p.returncode, lines, round(time.time() - t0, 1), p.stderr[-600:]


def one(m, tier, seed):
    d = make_copy(m["id"].replace("/", "_"))
    out = d + "-out"
    os.makedirs(out, exist_ok=True)
    res = {"id": m["id"], "property": m["property"], "what": m.get("what", "")}
    try:
        if "patch" in m:
            p = subprocess.run(["git", "apply", "--unsafe-paths", "--directory", d, m["patch"]],
                               cwd="/", capture_output=True, text=True)
            if p.returncode != 0:
                p = subprocess.run(["patch", "-p1", "-d", d, "-i", m["patch"]], capture_output=True, text=True)
            if p.returncode != 0:
                res["error"] = "patch does not apply: " + (p.stderr or p.stdout)[-300:]
                return res
        else:
            path = os.path.join(d, m["file"])
            src = open(path).read()
            if src.count(m["old"]) != 1:
                res["error"] = "pattern occurs %d times in %s" % (src.count(m["old"]), m["file"])
                return res
            open(path, "w").write(src.replace(m["old"], m["new"]))
        ok, tail = run_tests(d)
        res["repo_tests_pass"] = ok
        res["repo_tests"] = tail
        props = m["property"] if isinstance(m["property"], list) else [m["property"]]
        res["checks"] = {}
        for prop in props:
            rc, lines, wall, err = run_check(d, prop, tier, seed, out)
            res["checks"][prop] = {"exit": rc, "wall_s": wall, "violations": lines[:6]}
            if rc == 2:
                res["checks"][prop]["stderr"] = err
        res["killed"] = any(c["exit"] == 1 for c in res["checks"].values())
        return res
    finally:
        shutil.rmtree(d, ignore_errors=True)
        shutil.rmtree(out, ignore_errors=True)


def seeded():
    out = []
    root = os.path.join(VERIF, "seeded")
    for name in sorted(os.listdir(root)) if os.path.isdir(root) else []:
        meta = os.path.join(root, name, "meta.json")
        patch = os.path.join(root, name, "patch.diff")
        if os.path.exists(meta) and os.path.exists(patch):
            mj = json.load(open(meta))
            out.append({"id": "seeded/" + name, "property": mj.get("checks") or mj["property"],
                        "patch": patch, "what": mj.get("what", "")})
    return out


def main():
    ap = argparse.ArgumentParser()
    ap.add_argument("--only", default="")
    ap.add_argument("--ids", default="")
    ap.add_argument("--tier", default="quick")
    ap.add_argument("--seed", type=int, default=1)
    ap.add_argument("--jobs", type=int, default=4)
    ap.add_argument("--seeded", action="store_true")
    ap.add_argument("--planted", action="store_true")
    args = ap.parse_args()
    ms = []
    if args.planted or not args.seeded:
        from pbt.mutants_list import MUTANTS
        ms += MUTANTS
    if args.seeded or not args.planted:
        ms += seeded()
    only = set(filter(None, args.only.split(",")))
    ids = set(filter(None, args.ids.split(",")))
    if only:
        ms = [m for m in ms if set(m["property"] if isinstance(m["property"], list) else [m["property"]]) & only]
    if ids:
        ms = [m for m in ms if m["id"] in ids]
    results = []
    with concurrent.futures.ThreadPoolExecutor(args.jobs) as ex:
        for r in ex.map(lambda m: one(m, args.tier, args.seed), ms):
            results.append(r)
            status = "ERROR " + r["error"] if "error" in r else (
                ("KILLED " if r["killed"] else "SURVIVED ") +
                ("" if r["repo_tests_pass"] else "[repo tests FAIL: %s] " % r["repo_tests"]) +
                " ".join("%s:exit%d(%.0fs)" % (k, v["exit"], v["wall_s"]) for k, v in r["checks"].items()))
            print("%-40s %s" % (r["id"], status), flush=True)
    os.makedirs(os.path.join(VERIF, "sensitivity"), exist_ok=True)
    path = os.path.join(VERIF, "sensitivity", "results.json")
    old = {}
    if os.path.exists(path):
        old = {r["id"]: r for r in json.load(open(path))}
    for r in results:
        r["tier"] = args.tier
        old[r["id"]] = r
    try:  # forget entries of mutants / seeds that no longer exist
        from pbt.mutants_list import MUTANTS as _M
        known = {m["id"] for m in _M} | {m["id"] for m in seeded()}
        old = {k: v for k, v in old.items() if k in known}
    except Exception:  # noqa
        pass
    json.dump(sorted(old.values(), key=lambda r: r["id"]), open(path, "w"), indent=1, sort_keys=True)
    bad = [r for r in results if "error" in r or not r.get("killed")]
    return 1 if bad else 0


if __name__ == "__main__":
    sys.exit(main())
