"""Planted single-site mutants (DESIGN.md section 6).  Each keeps the repository's 45 tests
green (verified by the driver) and must be killed by the quick tier of its property."""
C = "pyscsi/utils/converter.py"
EC = "pyscsi/pyscsi/scsi_enum_command.py"
CMD = "pyscsi/pyscsi/scsi_command.py"

MUTANTS = [
    # ---- C10 ------------------------------------------------------------------------
    {"id": "C10-encode-num-from-value", "property": "C10", "file": C,
     "old": "            _num = 1\n            _bm = bitmask\n            while _bm > 0xFF:\n                _bm >>= 8\n                _num += 1\n\n            _bm = bitmask\n",
     "new": "            _num = 1\n            _bm = value\n            while _bm > 0xFF:\n                _bm >>= 8\n                _num += 1\n\n            _bm = bitmask\n",
     "what": "encode_dict derives the byte count from the value instead of the mask"},
    {"id": "C10-decode-shift-tests-bit1", "property": "C10", "file": C,
     "old": "            while not bitmask & 0x01:\n                bitmask >>= 1\n                value >>= 1\n            value &= bitmask",
     "new": "            while not bitmask & 0x03:\n                bitmask >>= 1\n                value >>= 1\n            value &= bitmask",
     "what": "decode_bits shift loop stops one bit early for masks ending in ...10"},
    {"id": "C10-int-to-ba-65th-bit", "property": "C10", "file": C,
     "old": "return bytearray((to_convert >> i * 8) & 0xFF for i in reversed(range(array_size)))",
     "new": "return bytearray(((to_convert & 0xFFFFFFFFFFFFFFFFFF) >> i * 8) & 0xFF for i in reversed(range(array_size)))",
     "what": "scsi_int_to_ba truncates integers above 72 bits"},
    {"id": "C10-w-blob-length", "property": "C10", "file": C,
     "old": "            value = data[offset : offset + length * 2]",
     "new": "            value = data[offset : offset + length * 1]",
     "what": "'w' blob decoded with length x 1"},
    {"id": "C10-decode-num-ge", "property": "C10", "file": C,
     "old": "            _bm = bitmask\n            while _bm > 0xFF:\n                _bm >>= 8\n                _num += 1\n            value = scsi_ba_to_int",
     "new": "            _bm = bitmask\n            while _bm >= 0xFF:\n                _bm >>= 8\n                _num += 1\n            value = scsi_ba_to_int",
     "what": "decode_bits reads one byte too many for masks whose top byte is FFh"},
    # ---- C14 ------------------------------------------------------------------------
    {"id": "C14-transposed-digit", "property": "C14", "file": EC,
     "old": '"SYNCHRONIZE_CACHE_16": OpCode("SYNCHRONIZE_CACHE_16", 0x91, {}),',
     "new": '"SYNCHRONIZE_CACHE_16": OpCode("SYNCHRONIZE_CACHE_16", 0x19, {}),',
     "what": "sbc SYNCHRONIZE_CACHE_16 = 0x19"},
    {"id": "C14-init-cdb-upper-bound", "property": "C14", "file": CMD,
     "old": "        elif 0x80 <= opcode.value <= 0x9F:",
     "new": "        elif 0x80 <= opcode.value <= 0x9E:",
     "what": "init_cdb refuses 9Fh"},
    {"id": "C14-sa-value", "property": "C14", "file": EC,
     "old": '    "READ_FULL_STATUS": 0x03,', "new": '    "READ_FULL_STATUS": 0x04,',
     "what": "PR IN READ FULL STATUS service action 4"},
    {"id": "C14-status", "property": "C14", "file": EC,
     "old": '    "TASK_SET_FULL": 0x28,', "new": '    "TASK_SET_FULL": 0x20,',
     "what": "TASK SET FULL status 20h"},
    {"id": "C14-group3-accepted", "property": "C14", "file": CMD,
     "old": "        elif 0x20 <= opcode.value <= 0x5F:", "new": "        elif 0x20 <= opcode.value <= 0x7F:",
     "what": "init_cdb accepts 60h-7Fh as 10-byte CDBs"},
]
