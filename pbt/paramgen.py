"""Strategies for the parameter dictionaries of the data-out composers (C03 C05 C09 C13):
mode parameter lists, PERSISTENT RESERVE OUT lists incl. TransportIDs, EXTENDED COPY lists.
Only dictionaries the library documents as valid are produced (construct, never filter)."""
import string

from hypothesis import strategies as st

from pbt.gen import fv

# ---- mode pages (library key vocabulary; widths from SPC-4 / SMC-3) ----------------------
CONTROL = {"tst": 3, "tmf_only": 1, "dpicz": 1, "d_sense": 1, "gltsd": 1, "rlec": 1,
           "queue_algorithm_modifier": 4, "nuar": 1, "qerr": 2, "vs": 1, "rac": 1, "ua_intlck_ctrl": 2,
           "swp": 1, "ato": 1, "tas": 1, "atmpe": 1, "rwwp": 1, "autoload_mode": 3,
           "busy_timeout_period": 16, "extended_self_test_completion_time": 16}
CONTROL_EXT = {"tcmos": 1, "scsip": 1, "ialuae": 1, "initial_command_priority": 4,
               "maximum_sense_data_length": 8}
DISCONNECT = {"buffer_full_ratio": 8, "buffer_empty_ratio": 8, "bus_inactivity_limit": 16,
              "disconnect_time_limit": 16, "connect_time_limit": 16, "maximum_burst_size": 16, "emdp": 1,
              "fair_arbitration": 3, "dimm": 1, "dtdc": 3, "first_burst_size": 16}
ELEMENT = {k: 16 for k in ["first_medium_transport_element_address", "num_medium_transport_elements",
                           "first_storage_element_address", "num_storage_elements",
                           "first_import_element_address", "num_import_elements",
                           "first_data_transfer_element_address", "num_data_transfer_elements"]}
PAGES = {
    "control": (0x0A, None, CONTROL),
    "control_ext": (0x0A, 1, CONTROL_EXT),
    "disconnect": (0x02, None, DISCONNECT),
    "element": (0x1D, None, ELEMENT),
}


@st.composite
def mode_page(draw, kinds=None, full=None):
    kind = draw(st.sampled_from(sorted(kinds or PAGES)))
    code, sub, fields = PAGES[kind]
    p = {"ps": draw(st.integers(0, 1)), "spf": 1 if sub is not None else 0, "page_code": code}
    if sub is not None:
        p["sub_page_code"] = sub
    allf = draw(st.booleans()) if full is None else full
    for k, w in fields.items():
        if allf or draw(st.booleans()):
            p[k] = draw(fv(w))
    return p


@st.composite
def mode_data(draw, ten=False, max_pages=3, min_pages=1):
    d = {}
    if draw(st.booleans()):
        d["medium_type"] = draw(fv(8))
    if draw(st.booleans()):
        d["device_specific_parameter"] = draw(fv(8))
    if ten and draw(st.booleans()):
        d["longlba"] = draw(st.integers(0, 1))
    d["mode_pages"] = draw(st.lists(mode_page(), min_size=min_pages, max_size=max_pages))
    return d


# ---- TransportIDs ------------------------------------------------------------------------
IQN_CHARS = string.ascii_lowercase + string.digits + ".-:"


UTF8_CHARS = IQN_CHARS + "\u00e4\u00f6\u00fc\u00e9\u00f1\u4e2d\u6587\u0434"  # iSCSI names are UTF-8 (RFC 3720/3722)


def iscsi_name(max_len=223):
    """iSCSI names of every length; one in five contains non-ASCII (UTF-8 multi-byte) characters,
    bounded so that the encoded name still fits the 223-byte limit."""
    ascii_ = st.integers(1, max_len).flatmap(lambda n: st.text(alphabet=IQN_CHARS, min_size=n, max_size=n))
    utf8 = st.integers(1, max(1, max_len // 3)).flatmap(lambda n: st.text(alphabet=UTF8_CHARS, min_size=n, max_size=n))
    return st.one_of(ascii_, ascii_, ascii_, ascii_, utf8)


@st.composite
def transport_id(draw, kinds=("fc", "1394", "rdma", "iscsi", "iscsi_isid", "sas", "sop")):
    k = draw(st.sampled_from(list(kinds)))
    b8 = st.binary(min_size=8, max_size=8)
    if k == "fc":
        return {"protocol_id": 0x00, "tpid_format": 0, "n_port_name": draw(b8)}
    if k == "1394":
        return {"protocol_id": 0x03, "tpid_format": 0, "eui64_name": draw(b8)}
    if k == "rdma":
        return {"protocol_id": 0x04, "tpid_format": 0,
                "initiator_port_identifier": draw(st.binary(min_size=16, max_size=16))}
    if k == "iscsi":
        t = {"protocol_id": 0x05, "iscsi_name": draw(iscsi_name())}
        if draw(st.booleans()):
            t["tpid_format"] = 0
        return t
    if k == "iscsi_isid":
        isid = draw(st.text(alphabet="0123456789abcdef", min_size=1, max_size=12))
        return {"protocol_id": 0x05, "tpid_format": 1, "iscsi_name": draw(iscsi_name(200)),
                "iscsi_initiator_session_id": isid}
    if k == "sas":
        return {"protocol_id": 0x06, "tpid_format": 0, "sas_address": draw(b8)}
    return {"protocol_id": 0x0A, "tpid_format": 0, "routing_id": draw(b8)}


# ---- PERSISTENT RESERVE OUT --------------------------------------------------------------
@st.composite
def prout_args(draw):
    """(service_action, scope, pr_type, kwargs) for PersistentReserveOut."""
    sa = draw(st.integers(0, 8))
    kw = {}
    if draw(st.booleans()):
        kw["reservation_key"] = draw(fv(64))
    if draw(st.booleans()):
        kw["service_action_reservation_key"] = draw(fv(64))
    if draw(st.booleans()):
        kw["aptpl"] = draw(st.integers(0, 1))
    if sa == 7:  # REGISTER AND MOVE
        if draw(st.booleans()):
            kw["unreg"] = draw(st.integers(0, 1))
        if draw(st.booleans()):
            kw["relative_target_port_id"] = draw(fv(16))
        if draw(st.integers(0, 4)):
            kw["transport_id"] = draw(transport_id())
    else:
        if draw(st.booleans()):
            kw["all_tg_pt"] = draw(st.integers(0, 1))
        if sa == 0 and draw(st.integers(0, 2)):
            kw["spec_i_pt"] = 1
            kw["transport_ids"] = draw(st.lists(transport_id(), max_size=6))
        elif draw(st.integers(0, 3)) == 0:
            kw["spec_i_pt"] = 0
    a = {"service_action": sa, "kw": kw}
    if draw(st.booleans()):
        a["scope"] = draw(fv(4))
    if draw(st.booleans()):
        a["pr_type"] = draw(fv(4))
    return a


# ---- EXTENDED COPY -----------------------------------------------------------------------
def designator(max_len=20):
    """(designator_type, code_set, designator dict) whose marshalled length is <= max_len."""
    b = lambda n: st.binary(min_size=n, max_size=n)  # noqa: E731
    return st.one_of(
        st.tuples(st.just(0), st.just(1), st.fixed_dictionaries({"vendor_specific": st.binary(min_size=0, max_size=max_len)})),
        st.tuples(st.just(1), st.just(2), st.fixed_dictionaries({"t10_vendor_id": b(8), "vendor_specific_id": st.binary(max_size=max_len - 8)})),
        st.tuples(st.just(2), st.just(1), st.fixed_dictionaries({"ieee_company_id": fv(24), "vendor_specific_extension_id": b(5)})),
        st.tuples(st.just(2), st.just(1), st.fixed_dictionaries({"ieee_company_id": fv(24), "vendor_specific_extension_id": b(5), "directory_id": b(4)})),
        st.tuples(st.just(2), st.just(1), st.fixed_dictionaries({"identifier_extension": b(8), "ieee_company_id": fv(24), "vendor_specific_extension_id": b(5)})),
        st.tuples(st.just(3), st.just(1), st.fixed_dictionaries({"naa": st.just(2), "vendor_specific_identifier_a": fv(12), "ieee_company_id": fv(24), "vendor_specific_identifier_b": fv(24)})),
        st.tuples(st.just(3), st.just(1), st.fixed_dictionaries({"naa": st.just(3), "locally_administered_value": fv(60)})),
        st.tuples(st.just(3), st.just(1), st.fixed_dictionaries({"naa": st.just(5), "ieee_company_id": fv(24), "vendor_specific_identifier": fv(36)})),
        st.tuples(st.just(3), st.just(1), st.fixed_dictionaries({"naa": st.just(6), "ieee_company_id": fv(24), "vendor_specific_identifier": fv(36), "vendor_specific_identifier_extension": fv(64)})),
        st.tuples(st.just(4), st.just(1), st.fixed_dictionaries({"relative_port": fv(16)})),
        st.tuples(st.just(5), st.just(1), st.fixed_dictionaries({"target_portal_group": fv(16)})),
        st.tuples(st.just(6), st.just(1), st.fixed_dictionaries({"logical_unit_group": fv(16)})),
        st.tuples(st.just(7), st.just(1), st.fixed_dictionaries({"md5_logical_identifier": b(16)})),
        st.tuples(st.just(9), st.just(1), st.fixed_dictionaries({"pci_express_routing_id": fv(16)})),
    )


DEVTYPES4 = {0x00: "Block", 0x01: "Stream or Tape", 0x03: "Stream", 0x04: "Block", 0x05: "Block", 0x07: "Block", 0x0E: "Block"}
DEVTYPES5 = {0x00: "Block", 0x01: "Stream or Tape", 0x03: "Stream", 0x05: "Block", 0x0E: "Block"}
DEVDESC = {0x00: "Direct access block device (e.g., magnetic disk)", 0x01: "Sequential access device (e.g., magnetic tape)",
           0x03: "Processor device", 0x04: "Write-once device (e.g., some optical disks)", 0x05: "CD/DVD device",
           0x07: "Optical memory device (e.g., some optical disks)",
           0x0E: "Simplified direct access device (e.g., magnetic disk)"}


@st.composite
def cscd(draw, spc5=False):
    dt, cs, des = draw(designator())
    pdt = draw(st.sampled_from(sorted(DEVTYPES5 if spc5 else DEVTYPES4)))
    pkey = "cscd_descriptor_parameters" if spc5 else "target_descriptor_parameters"
    name = "Identification Descriptor CSCD descriptor" if spc5 else "Identification descriptor target descriptor"
    d = {"descriptor_type_code": draw(st.sampled_from([0xE4, name])),
         "peripheral_device_type": draw(st.sampled_from([pdt, DEVDESC[pdt]])),
         pkey: {"code_set": cs, "association": draw(st.integers(0, 2)), "designator_type": dt, "designator": des}}
    if draw(st.booleans()):
        # the optional key of the class's docstring example: the length of the designator that follows
        from pbt.stdspec.responses import designator_body
        d[pkey]["designator_length"] = len(designator_body(dt, des))
    if draw(st.booleans()):
        d["relative_initiator_port_identifier"] = draw(fv(16))
    if draw(st.booleans()):
        d["lu_id_type"] = 0
    if draw(st.booleans()):
        p = {}
        if draw(st.booleans()):
            p["pad"] = draw(st.integers(0, 1))
        if pdt == 0x01:
            if draw(st.booleans()):
                p["fixed"] = draw(st.integers(0, 1))
            if draw(st.booleans()):
                p["stream_block_length"] = draw(fv(24))
        elif pdt != 0x03:
            if draw(st.booleans()):
                p["disk_block_length"] = draw(fv(24))
        d["device_type_specific_parameters"] = p
    d["_pdt"] = pdt  # harness-side note, removed before the call
    return d


SEG_NAMES = {0x00: ("block -> stream", "Copy from block device to stream device"),
             0x01: ("stream -> block", "Copy from stream device to block device"),
             0x02: ("block -> block", "Copy from block device to block device"),
             0x0B: ("block -> stream&application client", "Copy from block device to stream device and hold a copy of processed data for the application client"),
             0x0C: ("stream -> block&application client", "Copy from stream device to block device and hold a copy of processed data for the application client"),
             0x0D: ("block -> block&application client", "Copy from block device to block device and hold a copy of processed data for the application client")}


@st.composite
def segment(draw, spc5=False, codes=(0x00, 0x01, 0x02, 0x0B, 0x0C, 0x0D)):
    code = draw(st.sampled_from(list(codes)))
    spell = draw(st.sampled_from([code, SEG_NAMES[code][0], SEG_NAMES[code][1]]))
    src = "source_cscd_descriptor_id" if spc5 else "source_target_descriptor_id"
    dst = "destination_cscd_descriptor_id" if spc5 else "destination_target_descriptor_id"
    d = {"descriptor_type_code": spell}
    opt = lambda k, w: d.__setitem__(k, draw(fv(w))) if draw(st.booleans()) else None  # noqa: E731
    opt("cat", 1)
    opt(src, 16)
    opt(dst, 16)
    if code in (0x02, 0x0D):
        opt("dc", 1)
        if spc5:
            opt("fco", 1)
        opt("block_device_number_of_blocks", 16)
        opt("source_block_device_logical_block_address", 64)
        opt("destination_block_device_logical_block_address", 64)
    else:
        opt("stream_device_transfer_length", 24)
        opt("block_device_number_of_blocks", 16)
        opt("block_device_logical_block_address", 64)
    d["_code"] = code
    return d


@st.composite
def xcopy_args(draw, spc5=False, max_cscd=6, max_seg=8, seg_codes=(0x00, 0x01, 0x02, 0x0B, 0x0C, 0x0D)):
    a = {}
    opt = lambda k, w: a.__setitem__(k, draw(fv(w))) if draw(st.booleans()) else None  # noqa: E731
    opt("sequential_striped", 1)
    opt("priority", 3)
    if spc5:
        opt("list_id_usage", 2)
        opt("g_sense", 1)
        opt("immed", 1)
        opt("list_identifier", 32)
        lst = "cscd_descriptor_list"
    else:
        opt("list_identifier", 8)
        opt("nrcr", 1)
        lst = "target_descriptor_list"
    if draw(st.integers(0, 5)):
        a[lst] = draw(st.lists(cscd(spc5), max_size=max_cscd))
    if draw(st.integers(0, 5)):
        a["segment_descriptor_list"] = draw(st.lists(segment(spc5, seg_codes), max_size=max_seg))
    if draw(st.booleans()):
        if draw(st.integers(0, 11)) == 0:
            # large inline data (symbolic): the LID1 length field is 4 bytes wide, LID4's 2 bytes
            n = draw(st.sampled_from([65535] if spc5 else [65535, 65536, 65537, 70000, 131072 + 3]))
            a["inline_data"] = {"fill": draw(st.integers(0, 255)), "n": n}
        else:
            a["inline_data"] = bytearray(draw(st.binary(max_size=64)))
    return a


def inline_bytes(x):
    if isinstance(x, dict) and set(x) == {"fill", "n"}:
        return bytearray([x["fill"]]) * x["n"]
    return x


def strip_notes(x):
    """deep copy without the harness-side '_' keys (the library mutates caller dicts);
    symbolic buffers are materialized."""
    if isinstance(x, dict) and set(x) == {"fill", "n"}:
        return inline_bytes(x)
    if isinstance(x, dict):
        return {k: strip_notes(v) for k, v in x.items() if not (isinstance(k, str) and k.startswith("_"))}
    if isinstance(x, list):
        return [strip_notes(v) for v in x]
    if isinstance(x, bytearray):
        return bytearray(x)
    return x
