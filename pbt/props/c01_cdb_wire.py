"""C01 - every CDB the library builds has the standard's wire format.

Subjects: every (command class, opcode table that defines its lookup name) pair, through the
constructor, through the SCSI facade on a recording device, and through the buffer-less static
encoder.  Oracle: pbt.stdspec.cdb (independent layouts) - length, opcode, service action, every
supplied argument at its standard position, defaults for omitted ones, every other bit zero."""
from hypothesis import strategies as st

from pbt import cmds, common, devs, gen
from pbt.common import Violation, expect, lib
from pbt.stdspec import cdb as S
from pbt.stdspec import opcodes as T10

ID = "C01"
LEVEL = "exploration"
EXHAUSTIVE = False
SHARDS = {"quick": 8, "thorough": 16}
TIME_LIMIT = {"quick": int(__import__("os").environ.get("VERIF_QUICK_LIMIT", "900")), "thorough": 14400}
TECHNIQUE = "Hypothesis-generated argument tuples per (class, table, call path) decoded by an independent standards model (differential oracle); complete single-bit walk of every field in thorough"
RULE = (
    "one case = (command, table, path in {ctor, facade, marshall}, argument dict, omitted optionals); "
    "values boundary-biased over the standard field width (buffer-sizing fields bounded to 2^26 bytes "
    "through ctor/facade, full width through the static encoder); non-trivial = at least two CDB "
    "argument fields non-zero or one field value >= 2^16; distinct = distinct canonical JSON"
)
ASSUMPTIONS = [
    "stdspec/cdb.py transcribes the CDB tables of SPC-4/5, SBC-3, SMC-3, MMC-6, SAT-3 correctly (self-test checks overlaps and lengths)",
    "READ(16)/WRITE(16) on the ssc table are judged for opcode and length only (SSC-3 gives them a tape layout)",
    "buffer-sizing fields are bounded to 2^26 bytes through constructor and facade; their upper bits are covered through Cls.marshall_cdb",
]

OPCODE_ONLY = {("read16", "ssc"), ("write16", "ssc")}


def setup(ctx):
    common.import_pyscsi()


def subjects():
    out = []
    for c in cmds.COMMANDS:
        for t in c.tables():
            out.append((c, t))
    return out


def fill_auto(cmd, a):
    return gen.materialize(a)


def expected_fields(cmd, a):
    """standard field name -> value the CDB must carry (supplied value or constructor default)."""
    exp = {}
    for arg, f in cmd.fmap.items():
        if f is None:
            continue
        if arg in a:
            v = a[arg]
        elif arg in cmd.defaults:
            v = cmd.defaults[arg]
        else:
            continue
        exp[f] = v
    return exp


def judge(cmd, table, cdb, a):
    rec = S.CDB[cmd.std]
    probs = S.audit(cmd.std, cdb)
    if (cmd.name, table) in OPCODE_ONLY:
        probs = [p for p in probs if p[0] in ("cdb_type", "cdb_length", "opcode")]
        for p in probs:
            expect(False, "mismatch:" + p[0], problem=p, cdb=cdb)
        return
    for p in probs:
        expect(False, "mismatch:" + p[0], problem=p, cdb=cdb, args=a)
    got = S.decode(cmd.std, cdb)
    for f, v in expected_fields(cmd, a).items():
        if f == "ATA LBA":
            g = S.ata_lba(got)
            expect(g == v, "mismatch:field:ATA LBA", got=g, want=v, cdb=cdb)
        else:
            expect(got[f] == v, "mismatch:field:" + f, got=got[f], want=v, cdb=cdb)


def _wider_than_mask(cmd, a):
    """an argument exceeds the class's own mask (e.g. ELEMENT TYPE CODE 8..15): the library's decoder
    cannot represent it, so decode->build is not expected to reproduce the CDB (C02's domain excludes it)."""
    rename = LIB_FIELD_OF_ARG.get(cmd.name, {})
    for arg, v in a.items():
        if cmd.fmap.get(arg) and isinstance(v, int):
            key = rename.get(arg, arg)
            if key in cmd.cls._cdb_bits and v >= 1 << bin(cmd.cls._cdb_bits[key][0]).count("1"):
                return True
    return False


def nontrivial(cmd, a):
    vals = [v for k, v in a.items() if cmd.fmap.get(k) and isinstance(v, int)]
    return sum(1 for v in vals if v) >= 2 or any(v >= 1 << 16 for v in vals)


def make_check(cmd, table, path):
    def check(a):
        if path == "marshall":
            a2 = dict(a)
            if "data" in a2 and not cmd.name.startswith("modeselect"):
                a2["data"] = None  # the static encoder takes no buffers
        else:
            a2 = fill_auto(cmd, a)
        with lib("opcode lookup"):
            op = cmd.opcode(table)
        if path == "ctor":
            # every other case passes the leading optional arguments by position (constructor signature order)
            positional = bool(sum(v for v in a2.values() if isinstance(v, int)) & 1)
            with lib("constructor"):
                c = cmd.build(op, a2, positional=positional)
            cdb = c.cdb
            # building the CDB again on the same object (what the constructor did) gives the same bytes
            with lib("build_cdb again"):
                again = c.build_cdb(**cmd.cls.unmarshall_cdb(bytes(cdb)))
            if all(v < (1 << bin(cmd.cls._cdb_bits[k][0]).count("1")) for k, v in cmd.cls.unmarshall_cdb(bytes(cdb)).items()):
                expect(bytes(again) == bytes(cdb) or _wider_than_mask(cmd, a2), "mismatch:second_build_cdb_differs",
                       first=bytes(cdb), second=bytes(again))
            expect(bytes(c.cdb) == bytes(cdb), "mismatch:cdb_changed_by_build_cdb")
        elif path == "facade":
            with lib("attach"):
                s, dev = devs.attach(table, blocksize=a2.get("blocksize", 0) if "blocksize" in cmd.pos else 0)
            try:
                with lib("facade " + cmd.facade):
                    cmd.call(s, a2)
            except Violation:
                # the recording device leaves the data-in buffer zeroed, which is not a
                # conformant response: an error of the decode step *after* the single execute
                # is C13's/C04's business, not C01's.  Before execute it is C01's.
                if len(dev.calls) != 1:
                    raise
            expect(len(dev.calls) == 1, "mismatch:executes", n=len(dev.calls))
            cdb = dev.calls[0]["cdb"]
        else:  # marshall: the static encoder right after constructing one instance
            with lib("constructor (small)"):
                small = dict(a2)
                cmd_small = _shrink_sizes(cmd, small)
                inst = cmd.build(op, cmd_small)
            fields = _lib_fields(cmd, inst, a2, op)
            with lib("marshall_cdb"):
                cdb = cmd.cls.marshall_cdb(fields)
        judge(cmd, table, cdb, a2)
        return nontrivial(cmd, a2), (path,)

    return check


def _shrink_sizes(cmd, a):
    """arguments for a cheap instance of the same class (used only to select the layout)."""
    b = dict(a)
    for k in list(b):
        if k in cmd.size_args or k == "tl" or k in ("fetures", "count", "extra_tl"):
            if isinstance(b[k], int):
                b[k] = min(b[k], 1)
    if "data" in b and "blocksize" in b:
        n = b["blocksize"] * (b.get("tl", 1) if "tl" in b else 1)
        b["data"] = bytes(n)
    if cmd.name.startswith("atapassthrough"):
        b["data"] = None
    if cmd.name == "readcapacity10":
        b["alloclen"] = 8
    return b


def _lib_fields(cmd, inst, a, op):
    """the dict of library CDB field names -> values for Cls.marshall_cdb, obtained by decoding
    the small instance with the library's own decoder and substituting the generated values
    under the library's names (name mapping from the layout keys, not from stdspec)."""
    fields = dict(cmd.cls.unmarshall_cdb(inst.cdb))
    rename = LIB_FIELD_OF_ARG.get(cmd.name, {})
    for arg, v in a.items():
        if cmd.fmap.get(arg) is None or not isinstance(v, int):
            continue
        key = rename.get(arg, arg)
        if key not in fields:
            raise common.HarnessError("no CDB field %r in %s" % (key, cmd.clsname))
        if arg == "lba" and cmd.name.startswith("atapassthrough"):
            v = cmd.cls.scsi_to_ata_lba_convert(v)
        fields[key] = v
    return fields


# constructor argument name -> key of the class's _cdb_bits where they differ
LIB_FIELD_OF_ARG = {
    "inquiry": {"alloclen": "alloc_len"}, "modesense6": {"alloclen": "alloc_len"},
    "modesense10": {"alloclen": "alloc_len"}, "getlbastatus": {"alloclen": "alloc_len"},
    "readcapacity16": {"alloclen": "alloc_len"}, "reportluns": {"alloclen": "alloc_len", "report": "select_report"},
    "reportpriority": {"alloclen": "alloc_len", "priority": "priority_reported"},
    "reporttargetportgroups": {"alloclen": "alloc_len", "data_format": "parameter_data_format"},
    "readelementstatus": {"alloclen": "alloc_len", "start": "starting_element_address", "num": "num_elements"},
    "persistentreservein": {"alloclen": "alloc_len"}, "prin_readkeys": {"alloclen": "alloc_len"},
    "prin_readreservation": {"alloclen": "alloc_len"}, "prin_reportcapabilities": {"alloclen": "alloc_len"},
    "prin_readfullstatus": {"alloclen": "alloc_len"},
    "exchangemedium": {"xfer": "medium_transport_address", "source": "source_address",
                       "dest1": "first_destination_address", "dest2": "second_destination_address"},
    "movemedium": {"xfer": "medium_transport_address", "source": "source_address", "dest": "destination_address"},
    "positiontoelement": {"xfer": "medium_transport_address", "dest": "destination_address"},
    "opencloseimportexportelement": {"xfer": "element_address", "acode": "action_code"},
    "initializeelementstatuswithrange": {"xfer": "starting_element_address", "elements": "number_of_elements",
                                         "rng": "range"},
    "atapassthrough12": {"protocal": "protocol"}, "atapassthrough16": {"protocal": "protocol"},
}


# ---------------------------------------------------------------------------------------
# complete single-bit walk (thorough): every field, every bit set alone / cleared from all-ones
# ---------------------------------------------------------------------------------------
def walk_cases(cmd):
    base = {}
    for p in cmd.pos:
        base[p] = 0
    if "blocksize" in base:
        base["blocksize"] = 1
    if cmd.name.startswith("modeselect"):
        base["data"] = gen.MODE_PAGE_MIN
    if cmd.name.startswith("atapassthrough"):
        base.update({"t_length": 0, "byte_block": 0, "t_dir": 0, "t_type": 0})
    for arg, f in cmd.fmap.items():
        if f is None:
            continue
        w = gen.std_width(cmd, arg)
        if arg in ("service_action",) and cmd.name.startswith("prin_"):
            continue
        for i in range(w):
            for v in ((1 << i), ((1 << w) - 1) ^ (1 << i)):
                a = dict(base)
                a[arg] = v
                yield a


def flag_combo_cases(cmd):
    """thorough: all 2^k combinations of the one-bit fields of a command (other fields minimal)."""
    import itertools

    flags = [arg for arg, f in cmd.fmap.items() if f and gen.std_width(cmd, arg) == 1]
    if not flags or len(flags) > 8:
        return
    base = next(iter(walk_cases(cmd)), None)
    if base is None:
        return
    for arg, f in cmd.fmap.items():
        if f and isinstance(base.get(arg), int) and arg not in cmd.pos:
            base.pop(arg, None)
    for p in cmd.pos:
        if isinstance(base.get(p), int) and p != "blocksize":
            base[p] = 0
    for combo in itertools.product((0, 1), repeat=len(flags)):
        a = dict(base)
        a.update(dict(zip(flags, combo)))
        if cmd.name.startswith("atapassthrough"):
            a["t_length"] = 0
        yield a


def _walk_ok_for_ctor(cmd, a):
    """the ctor path allocates buffers: keep the walk there below the allocation bound."""
    for k, v in a.items():
        if not isinstance(v, int):
            continue
        unit = 3072 if cmd.name == "readcd" and k == "tl" else 1
        if (k in cmd.size_args or k == "tl") and v * unit > gen.BIG:
            return False
    if cmd.name.startswith("atapassthrough"):
        return True
    return True


def _fix_data(cmd, a):
    a = dict(a)
    if "data" in cmd.pos and "blocksize" in cmd.pos:
        n = a["blocksize"] * (1 if cmd.name.startswith("writesame") else a.get("tl", 0))
        a["data"] = {"fill": 0, "n": n}  # symbolic; materialized only on the ctor/facade path
    if cmd.name.startswith("writesame") and a.get("ndob"):
        a["data"] = None
    return a


def run(ctx):
    subs = subjects()
    ctx.extra["class_table_pairs"] = len(subs)
    n_ctor = ctx.n(60 * 8, 1000 * 16)
    for idx, (cmd, table) in enumerate(subs):
        name = "%s@%s" % (cmd.name, table)
        common.search(ctx, name + ":ctor", gen.args(cmd), make_check(cmd, table, "ctor"), n_ctor)
        if cmd.facade:
            common.search(ctx, name + ":facade", gen.args(cmd), make_check(cmd, table, "facade"), n_ctor)
        if (cmd.name, table) not in OPCODE_ONLY and not cmd.name.startswith("extendedcopy"):
            common.search(ctx, name + ":marshall", gen.args(cmd, full_width=True, all_optional=True),
                          make_check(cmd, table, "marshall"), max(10, n_ctor // 2))
        # deterministic walk: quick = first table of each command, thorough = every table
        if ctx.thorough or table == cmd.tables()[0]:
            i = 0
            for a in walk_cases(cmd):
                i += 1
                if not ctx.mine(i):
                    continue
                a = _fix_data(cmd, a)
                path = "ctor" if _walk_ok_for_ctor(cmd, a) else "marshall"
                if path == "marshall" and ((cmd.name, table) in OPCODE_ONLY or cmd.name.startswith("extendedcopy")):
                    continue
                common.run_one(ctx, name + ":" + path + ":walk", a, make_check(cmd, table, path))
        if ctx.thorough and table == cmd.tables()[0]:
            for j, a in enumerate(flag_combo_cases(cmd)):
                if ctx.mine(j):
                    common.run_one(ctx, name + ":ctor:flags", _fix_data(cmd, a), make_check(cmd, table, "ctor"))
    if ctx.thorough:
        ctx.exhaustive_parts.append("all 2^k combinations of the one-bit fields of every command")
    ctx.exhaustive_parts.append("single-bit walk: every CDB field of every command, every bit set alone and "
                                "cleared from all-ones (%s)" % ("all tables" if ctx.thorough else "first table of each command"))


def replay(ctx, subject, case):
    name, path = subject.split(":")[0], subject.split(":")[1]
    cname, table = name.split("@")
    make_check(cmds.BY_NAME[cname], table, path)(case)


def floors(tier, classes, subjects_, evaluations, distinct):
    out = []
    for p in ("ctor", "facade", "marshall"):
        if classes.get(p, 0) < 1000:
            out.append("path %s exercised only %d times" % (p, classes.get(p, 0)))
    return out
