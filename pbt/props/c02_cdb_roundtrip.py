"""C02 - CDB decoding is the exact inverse of CDB encoding.

Round trip of the library's static codec with itself, per class, in the only history it is
defined for (right after constructing an instance of that class; interleavings are C09's)."""
from hypothesis import strategies as st

from pbt import cmds, common, gen
from pbt.stdspec import cdb as S
from pbt.common import expect, lib
from pbt.props.c01_cdb_wire import LIB_FIELD_OF_ARG

ID = "C02"
LEVEL = "exploration"
EXHAUSTIVE = False
SHARDS = {"quick": 4, "thorough": 16}
TECHNIQUE = "Hypothesis round-trip (encode->decode, decode->encode) and single-field metamorphic relation over every class's CDB layout; exhaustive neighbour-interference walk"
RULE = (
    "per class: (a) joint in-range assignment to ALL fields of the class's CDB layout, encoded with "
    "Cls.marshall_cdb and decoded with Cls.unmarshall_cdb; (b) byte strings of the CDB length with "
    "random bits under the union of the field masks, decoded then re-encoded; (c) two assignments "
    "differing in exactly one field; (d) constructor arguments recovered by decoding cmd.cdb. "
    "Non-trivial = at least 2 non-zero fields and one multi-byte or non-byte-aligned field with its "
    "top bit set; distinct = distinct canonical JSON"
)
ASSUMPTIONS = [
    "field ranges are taken from the class's own masks (contiguous runs); whether the masks are the standard's is C01's question",
    "the opcode field ranges over the operation codes whose SAM group has the class's CDB length (a byte string of that length is a CDB only then)",
    "the static codec is used right after constructing an instance of the same class (C09 covers other histories)",
]


def setup(ctx):
    common.import_pyscsi()


def layout_of(cmd):
    out = {}
    n = S.CDB[cmd.std]["length"]
    std = [(8 * b + 7 - msb, width) for (b, msb, width) in S.CDB[cmd.std]["fields"].values()]
    if S.CDB[cmd.std].get("sa_field"):
        b_, msb_, width_ = S.CDB[cmd.std]["sa_field"]
        std.append((8 * b_ + 7 - msb_, width_))
    std.append((0, 8))  # OPERATION CODE
    for k, v in cmd.cls._cdb_bits.items():
        mask, off = v
        w = bin(mask).count("1")
        # the values a field takes come from the width the standard gives the field at this place (the
        # independent model), not from the class's own mask: a mask that lost or gained a bit must not
        # shrink or stretch the domain it is tested on
        absmask = field_bits(mask, off, n)
        start = 8 * n - absmask.bit_length()
        over = [f for f in std if min(start + w, f[0] + f[1]) - max(start, f[0]) > 0]
        if over:
            # (a class field may cover several adjacent fields of the model, e.g. the ATA LBA bytes)
            w = max(w, max(f[0] + f[1] for f in over) - min(f[0] for f in over)) if len(over) > 1 else over[0][1]
        out[k] = (mask, off, w)
    return out


def instantiate(cmd):
    t = cmd.tables()[0]
    return cmd.build(cmd.opcode(t), gen.minimal(cmd))


def field_bits(mask, off, total_len):
    """absolute mask of the field inside a CDB of total_len bytes."""
    n = 1
    m = mask
    while m > 0xFF:
        m >>= 8
        n += 1
    return mask << (8 * (total_len - off - n))


def opcodes_of_length(n):
    """opcode values whose SAM group prescribes an n-byte CDB (the class's own length): a byte
    string of the class's length is only a CDB if its first byte belongs to that group."""
    from pbt.stdspec import opcodes as T10

    return [v for v in range(256) if T10.cdb_length(v) == n]


def make_strategy_a(cmd, n=None):
    lay = layout_of(cmd)
    n = n or len(instantiate(cmd).cdb)
    d = {k: gen.fv(w) for k, (m, o, w) in lay.items()}
    if "opcode" in d:
        d["opcode"] = st.sampled_from(opcodes_of_length(n))
    return st.fixed_dictionaries(d)


def check_a(cmd):
    def check(d):
        with lib("constructor"):
            inst = instantiate(cmd)
        n = len(inst.cdb)
        with lib("marshall_cdb"):
            b = cmd.cls.marshall_cdb(dict(d))
        expect(isinstance(b, (bytes, bytearray)) and len(b) == n, "mismatch:encoded_length", got=len(b), want=n)
        with lib("unmarshall_cdb"):
            back = cmd.cls.unmarshall_cdb(b)
        for k in d:
            expect(back.get(k) == d[k], "mismatch:decode_of_encode:" + k, got=back.get(k), want=d[k], cdb=b)
        expect(set(back) == set(d), "mismatch:decoded_keys", got=sorted(back), want=sorted(d))
        with lib("marshall_cdb"):
            b2 = cmd.cls.marshall_cdb(back)
        expect(bytes(b2) == bytes(b), "mismatch:reencode", a=b, b=b2)
        # the instance spelling, repeatedly on one object
        own = bytes(inst.cdb)
        with lib("build_cdb"):
            i1 = inst.build_cdb(**dict(d))
            i2 = inst.build_cdb(**dict(d))
        expect(bytes(i1) == bytes(b) and bytes(i2) == bytes(b), "mismatch:instance_build_cdb", first=bytes(i1), second=bytes(i2), want=bytes(b))
        expect(bytes(inst.cdb) == own, "mismatch:build_cdb_changed_the_commands_own_cdb")
        # the same assignment without the opcode key: every other field is placed as before
        if "opcode" in d:
            d_no = {k: v for k, v in d.items() if k != "opcode"}
            with lib("marshall_cdb without opcode"):
                b3 = cmd.cls.marshall_cdb(d_no)
            # (without an opcode the library documents "the shortest cdb that holds the layout")
            m = len(b3)
            expect(m in (6, 10, 12, 16) and m <= n and bytes(b3[1:]) == bytes(b[1:m]) and b3[0] == 0
                   and not any(b[m:]), "mismatch:encode_without_opcode", got=bytes(b3), want=bytes(b))
        lay = layout_of(cmd)
        nz = sum(1 for v in d.values() if v)
        top = any((w > 8 or (m & 0xFF) != 0xFF and w > 1) and d[k] >> (w - 1) for k, (m, o, w) in lay.items())
        return (nz >= 2 and top), ("a",)
    return check


def make_strategy_b(cmd, n):
    lay = layout_of(cmd)
    union = 0
    for k, (m, o, w) in lay.items():
        union |= field_bits(m, o, n)
    ops = opcodes_of_length(n)
    return st.tuples(st.integers(0, (1 << (8 * n)) - 1), st.sampled_from(ops)).map(
        lambda t: bytes([t[1]]) + (t[0] & union).to_bytes(n, "big")[1:])


def check_b(cmd):
    def check(b):
        with lib("constructor"):
            instantiate(cmd)
        with lib("unmarshall_cdb"):
            d = cmd.cls.unmarshall_cdb(bytearray(b))
        with lib("marshall_cdb"):
            b2 = cmd.cls.marshall_cdb(d)
        expect(bytes(b2) == bytes(b), "mismatch:encode_of_decode", got=b2, want=b, decoded=d)
        return sum(1 for x in b if x) >= 3, ("b",)
    return check


def make_strategy_c(cmd):
    lay = layout_of(cmd)
    keys = sorted(lay)
    n = len(instantiate(cmd).cdb)
    return st.tuples(make_strategy_a(cmd), st.sampled_from(keys)).flatmap(
        lambda t: st.tuples(st.just(t[0]), st.just(t[1]),
                            st.sampled_from(opcodes_of_length(n)) if t[1] == "opcode" else gen.fv(lay[t[1]][2])))


def check_c(cmd):
    def check(t):
        d, key, newv = t
        with lib("constructor"):
            inst = instantiate(cmd)
        n = len(inst.cdb)
        d2 = dict(d)
        d2[key] = newv
        with lib("marshall_cdb"):
            b1 = cmd.cls.marshall_cdb(dict(d))
            b2 = cmd.cls.marshall_cdb(dict(d2))
        with lib("unmarshall_cdb"):
            r1 = cmd.cls.unmarshall_cdb(b1)
            r2 = cmd.cls.unmarshall_cdb(b2)
        for k in d:
            if k == key:
                expect(r2[k] == newv, "mismatch:changed_field_value:" + k, got=r2[k], want=newv)
            else:
                expect(r1[k] == r2[k], "mismatch:other_field_changed:" + k, changed=key, before=r1[k], after=r2[k])
        m, o, w = layout_of(cmd)[key]
        diff = int.from_bytes(bytes(b1), "big") ^ int.from_bytes(bytes(b2), "big")
        expect(diff & ~field_bits(m, o, n) == 0, "mismatch:bytes_outside_field_changed", field=key, a=b1, b=b2)
        return (d[key] != newv and sum(1 for v in d.values() if v) >= 2), ("c",)
    return check


def check_d(cmd, table):
    rename = LIB_FIELD_OF_ARG.get(cmd.name, {})

    def check(a):
        a2 = gen.materialize(a)
        with lib("constructor"):
            inst = cmd.build(cmd.opcode(table), a2)
        with lib("unmarshall_cdb"):
            d = cmd.cls.unmarshall_cdb(inst.cdb)
            d_inst = inst.unmarshall_cdb(inst.cdb)
        expect(d == d_inst, "mismatch:instance_vs_class_decode")
        nz = 0
        for arg, v in a2.items():
            if cmd.fmap.get(arg) is None or not isinstance(v, int):
                continue
            key = rename.get(arg, arg)
            want = v
            if arg == "lba" and cmd.name.startswith("atapassthrough"):
                want = cmd.cls.scsi_to_ata_lba_convert(v)
            m, o, w = layout_of(cmd)[key]
            if want >= 1 << w:
                continue  # outside the library's own field width: C01's business
            expect(d.get(key) == want, "mismatch:ctor_arg_not_recovered:" + key, got=d.get(key), want=want, cdb=inst.cdb)
            nz += bool(v)
        expect(d.get("opcode") == inst.cdb[0], "mismatch:opcode_field")
        return nz >= 2, ("d",)
    return check


def neighbour_cases(cmd):
    """every field at {0,1,max,max-1,each single bit} with all other fields at max."""
    lay = layout_of(cmd)
    for key, (m, o, w) in sorted(lay.items()):
        vals = {0, 1, (1 << w) - 1, (1 << w) - 2 if w > 1 else 0}
        vals.update(1 << i for i in range(w))
        for v in sorted(vals):
            d = {k: (1 << lay[k][2]) - 1 for k in lay}
            if "opcode" in d:
                d["opcode"] = cmd.opcode(cmd.tables()[0]).value
            if key == "opcode":
                continue
            yield (d, key, v)


def run(ctx):
    for cmd in cmds.COMMANDS:
        with lib("constructor"):
            try:
                n = len(instantiate(cmd).cdb)
            except common.Violation as v:
                ctx.violation(cmd.name + ":a", {}, v)
                continue
        k = ctx.n(200 * 4, 3000 * 16)
        common.search(ctx, cmd.name + ":a", make_strategy_a(cmd), check_a(cmd), k)
        common.search(ctx, cmd.name + ":b", make_strategy_b(cmd, n), check_b(cmd), max(20, k // 2))
        common.search(ctx, cmd.name + ":c", make_strategy_c(cmd), check_c(cmd), max(20, k // 2))
        t = cmd.tables()[0]
        common.search(ctx, "%s@%s:d" % (cmd.name, t), gen.args(cmd), check_d(cmd, t), max(20, k // 4))
        for i, case in enumerate(neighbour_cases(cmd)):
            if ctx.mine(i):
                common.run_one(ctx, cmd.name + ":c:walk", case, check_c(cmd))
    ctx.exhaustive_parts.append("neighbour interference walk: every field of every class at {0,1,max,max-1,each single bit} with all other fields at max")


def replay(ctx, subject, case):
    parts = subject.split(":")
    name, mode = parts[0], parts[1]
    table = None
    if "@" in name:
        name, table = name.split("@")
    cmd = cmds.BY_NAME[name]
    if mode == "a":
        check_a(cmd)(case)
    elif mode == "b":
        check_b(cmd)(case)
    elif mode == "c":
        check_c(cmd)(tuple(case))
    else:
        check_d(cmd, table)(case)


def floors(tier, classes, subjects, evaluations, distinct):
    return ["mode %s never ran" % m for m in "abcd" if not classes.get(m)]
