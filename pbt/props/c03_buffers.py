"""C03 - data buffers match the transfer the CDB announces.

Oracle: an independent rule per command evaluated on the CDB as decoded by pbt.stdspec.cdb
(allocation length / transfer length x block size / SAT transfer rules / parameter list
length), then the same command pushed through SCSIDevice and ISCSIDevice over the binding
stand-ins, where the lengths and direction the binding receives must agree with the CDB."""
from hypothesis import strategies as st

from pbt import cmds, common, gen, paramgen, standins, transports
from pbt.common import expect, lib
from pbt.stdspec import cdb as S

ID = "C03"
LEVEL = "exploration"
EXHAUSTIVE = False
SHARDS = {"quick": 8, "thorough": 16}
TECHNIQUE = "Hypothesis-generated sizes/arguments; buffer lengths compared with the transfer announced by the independently decoded CDB; both transports driven over stand-in bindings that audit direction and length"
RULE = (
    "one case = (command, argument dict incl. block size / transfer length / allocation length / "
    "parameter dictionary); buffers are really allocated (<= 2^26 bytes). Non-trivial = transfer of "
    ">= 2 blocks with block size != 512, or allocation length >= 256, or an ATA case with "
    "t_length != 0, or a composed parameter list longer than its fixed header; distinct = distinct canonical JSON"
)
ASSUMPTIONS = [
    "stand-ins mirror cython-sgio's execute(file, cdb, dataout, datain) and cython-iscsi's Task(cdb, dir, xferlen)/Context.command as the library uses them",
    "READ CD has no allocation length in its CDB: the buffer must hold at least tl x the sector size implied by the selection bits",
    "READ CAPACITY(10) has no length in the CDB: buffer >= 8 and == the caller's alloclen",
    "ATA PASS-THROUGH T_LENGTH=3 (TPSIU): the transfer length is what the caller passes as extra_tl",
]

ALLOC = {"inquiry", "modesense6", "modesense10", "readcapacity16", "getlbastatus", "reportluns", "reportpriority",
         "reporttargetportgroups", "persistentreservein", "prin_readkeys", "prin_readreservation",
         "prin_reportcapabilities", "prin_readfullstatus", "readdiscinformation", "readelementstatus"}
READS = {"read10", "read12", "read16"}
WRITES = {"write10", "write12", "write16"}
PLIST = {"modeselect6", "modeselect10", "persistentreserveout", "extendedcopy4", "extendedcopy5"}
NODATA = {"testunitready", "preventallowmediumremoval", "synchronizecache10", "synchronizecache16", "exchangemedium",
          "initializeelementstatus", "initializeelementstatuswithrange", "movemedium",
          "opencloseimportexportelement", "positiontoelement"}

_DEV = {}


def setup(ctx):
    common.import_pyscsi()
    transports.set_handler(lambda cdb, dout, din: (0, None))
    _DEV["sgio"] = transports.make_sgio(readwrite=True)
    _DEV["iscsi"] = transports.make_iscsi()


def isbuf(x):
    return isinstance(x, (bytes, bytearray, memoryview))


def readcd_sector_bytes(a):
    """upper bound MMC gives for one sector image selected by the CDB bits."""
    mcsb = a.get("mcsb", 0)
    n = 0
    if mcsb & 0x10:
        n += 12
    if mcsb & 0x0C:
        n += 4 if (mcsb & 0x0C) == 0x04 else (8 if (mcsb & 0x0C) == 0x08 else 12)
    if mcsb & 0x02:
        n += 2352
    if mcsb & 0x01:
        n += 288
    n = min(n, 2352)
    c2 = a.get("c2ei", 0)
    n += 294 if c2 == 1 else (296 if c2 == 2 else 0)
    sc = a.get("scsb", 0)
    n += 96 if sc in (1, 4) else (16 if sc == 2 else 0)
    return n


def expected(cmd, a, cdb):
    """-> (din_rule, dout_rule) with rule = ('eq', n) | ('ge', n); plus the caller's payload."""
    name = cmd.name
    f = S.decode(cmd.std, cdb)
    if name in ALLOC:
        return ("eq", f["ALLOCATION LENGTH"]), ("eq", 0)
    if name in READS:
        return ("eq", f["TRANSFER LENGTH"] * a["blocksize"]), ("eq", 0)
    if name in WRITES:
        d = a.get("data")
        n = d["n"] if isinstance(d, dict) else (len(d) if d is not None else 0)
        if a.get("wrprotect") and n == f["TRANSFER LENGTH"] * (a["blocksize"] + 8):
            # protection information is transferred with the data (SBC-3 4.22): blocks of blocksize + 8 bytes
            return ("eq", 0), ("eq", n)
        return ("eq", 0), ("eq", f["TRANSFER LENGTH"] * a["blocksize"])
    if name.startswith("writesame"):
        if f.get("NDOB"):
            return ("eq", 0), ("eq", 0)
        return ("eq", 0), ("eq", a["blocksize"])
    if name in NODATA:
        return ("eq", 0), ("eq", 0)
    if name == "readcapacity10":
        return ("eq", max(8, a.get("alloclen", 8))), ("eq", 0)
    if name == "readcd":
        return ("ge", f["TRANSFER LENGTH"] * readcd_sector_bytes(a)), ("eq", 0)
    if name in PLIST:
        return ("eq", 0), ("eq", f["PARAMETER LIST LENGTH"])
    if name.startswith("atapassthrough"):
        tlen = f["T_LENGTH"]
        n = {0: 0, 1: f["FEATURES"], 2: f["COUNT"], 3: a.get("extra_tl") or 0}[tlen]
        if tlen == 0:
            unit = 0
        elif not f["BYTE_BLOCK"]:
            unit = 1
        elif not f["T_TYPE"]:
            unit = 512
        else:
            unit = a.get("blocksize", 0)
        total = n * unit
        if tlen == 3 and not a.get("extra_tl") and a.get("data") is not None:
            total = len(a["data"])  # length known to the TPSIU only: the caller's buffer is the transfer
        if f["T_DIR"]:
            return ("eq", total), ("eq", 0)
        return ("eq", 0), ("eq", total)
    raise common.HarnessError("no buffer rule for " + name)


def holds(rule, n):
    return n == rule[1] if rule[0] == "eq" else n >= rule[1]


def strategy(cmd):
    if cmd.name == "modeselect6":
        return st.builds(lambda d, o: dict(o, data=d), paramgen.mode_data(False), _opt(cmd))
    if cmd.name == "modeselect10":
        return st.builds(lambda d, o: dict(o, data=d), paramgen.mode_data(True), _opt(cmd))
    if cmd.name == "persistentreserveout":
        return paramgen.prout_args()
    if cmd.name == "extendedcopy4":
        return paramgen.xcopy_args(False)
    if cmd.name == "extendedcopy5":
        return paramgen.xcopy_args(True)
    return gen.args(cmd)


def _opt(cmd):
    return st.fixed_dictionaries({}, optional={"pf": st.integers(0, 1), "sp": st.integers(0, 1)})


def build(cmd, table, a):
    op = cmd.opcode(table)
    if cmd.name == "persistentreserveout":
        kw = paramgen.strip_notes(a["kw"])
        extra = {k: a[k] for k in ("scope", "pr_type") if k in a}
        return cmd.cls(op, a["service_action"], **extra, **kw)
    if cmd.name.startswith("extendedcopy"):
        return cmd.cls(op, **paramgen.strip_notes(a))
    if cmd.name.startswith("modeselect"):
        a = dict(a, data=paramgen.strip_notes(a["data"]))
    return cmd.build(op, a)


def make_check(cmd, table):
    def check(a):
        a2 = gen.materialize(a) if cmd.name not in PLIST else a
        with lib("constructor"):
            c = build(cmd, table, a2)
        cdb = c.cdb
        expect(isinstance(cdb, (bytes, bytearray)) and len(cdb) == S.CDB[cmd.std]["length"], "mismatch:cdb",
               cdb=cdb)
        expect(isbuf(c.datain), "mismatch:datain_not_a_buffer", got=type(c.datain).__name__)
        expect(isbuf(c.dataout), "mismatch:dataout_not_a_buffer", got=type(c.dataout).__name__)
        din_rule, dout_rule = expected(cmd, a2, cdb)
        expect(holds(din_rule, len(c.datain)), "mismatch:datain_length", got=len(c.datain), rule=din_rule, cdb=cdb)
        expect(holds(dout_rule, len(c.dataout)), "mismatch:dataout_length", got=len(c.dataout), rule=dout_rule,
               cdb=cdb)
        # the caller's write data is what is sent
        if cmd.name in WRITES or (cmd.name.startswith("writesame") and not a2.get("ndob")):
            expect(bytes(c.dataout) == bytes(a2["data"]), "mismatch:write_payload_not_callers_data")
        if cmd.name.startswith("atapassthrough") and a2.get("data") is not None and len(a2["data"]):
            buf = c.datain if a2["t_dir"] else c.dataout
            expect(buf is a2["data"] or bytes(buf) == bytes(a2["data"]), "mismatch:ata_payload_not_callers_data")
        # both transports: what the binding receives must agree with the CDB
        for tname in ("sgio", "iscsi"):
            mark = transports.log_mark()
            with lib("execute over " + tname):
                _DEV[tname].execute(c)
            ev = transports.log_since(mark)
            if tname == "sgio":
                e = [x for x in ev if x[0] == "sgio.execute"]
                expect(len(e) == 1, "mismatch:sgio_executes", n=len(e))
                _, _, closed, _, cdb_seen, lo, li, _ = e[0]
                expect(cdb_seen == bytes(cdb), "mismatch:sgio_cdb")
                expect(lo is not None and holds(dout_rule, lo), "mismatch:sgio_dataout_length", got=lo, rule=dout_rule)
                expect(li is not None and holds(din_rule, li), "mismatch:sgio_datain_length", got=li, rule=din_rule)
            else:
                e = [x for x in ev if x[0] == "iscsi.command"]
                expect(len(e) == 1, "mismatch:iscsi_commands", n=len(e))
                _, _, lun, cdb_seen, direction, xferlen, lo, li = e[0]
                expect(cdb_seen == bytes(cdb), "mismatch:iscsi_cdb")
                want_dir = 1 if len(c.datain) else (2 if len(c.dataout) else 0)
                if din_rule == ("eq", 0) and dout_rule[1] > 0:
                    want_dir = 2
                elif dout_rule == ("eq", 0) and din_rule[1] > 0:
                    want_dir = 1
                elif din_rule == ("eq", 0) and dout_rule == ("eq", 0):
                    want_dir = 0
                expect(direction == want_dir, "mismatch:iscsi_direction", got=direction, want=want_dir)
                want_len = len(c.dataout) if want_dir == 2 else (len(c.datain) if want_dir == 1 else 0)
                expect(xferlen == want_len, "mismatch:iscsi_xferlen", got=xferlen, want=want_len)
        # decoding the data-in buffer (what the facade does after execute) must leave both buffers as
        # they were, so that inspecting or re-issuing the command still matches its CDB
        if hasattr(c, "unmarshall_datain") and cmd.name not in PLIST and len(c.datain) <= 65536:
            n_in, n_out = len(c.datain), len(c.dataout)
            kw = {}
            if cmd.name == "readcd":
                kw = {k: a2.get(k, 0) for k in ("lba", "tl", "est", "mcsb", "c2ei", "scsb")}
                if kw["est"] == 0:
                    kw["mcsb"] = 0
            if cmd.name == "inquiry":
                kw = {"evpd": a2.get("evpd", 0)}
            try:
                c.unmarshall(**kw)
            except Exception:  # noqa  zeroed data is not a conformant response: decode errors are not C03's business
                pass
            expect(len(c.datain) == n_in and len(c.dataout) == n_out, "mismatch:decoding_changed_a_buffer_length",
                   datain=[n_in, len(c.datain)], dataout=[n_out, len(c.dataout)])
            # the binding may report a residual (short transfer): that must not alter the buffers either
            from pbt.standins import sgio as sgio_mod

            sgio_mod.residual = max(0, n_in - 7) if n_in else 0
            try:
                mark = transports.log_mark()
                with lib("execute over sgio with residual"):
                    _DEV["sgio"].execute(c)
                    _DEV["sgio"].execute(c)
                e = [x for x in transports.log_since(mark) if x[0] == "sgio.execute"]
                expect(len(e) == 2 and all(x[6] is not None and holds(din_rule, x[6]) for x in e),
                       "mismatch:datain_length_after_residual", got=[x[6] for x in e], rule=din_rule)
            finally:
                sgio_mod.residual = 0
            mark = transports.log_mark()
            with lib("re-execute over iscsi"):
                _DEV["iscsi"].execute(c)
            e = [x for x in transports.log_since(mark) if x[0] == "iscsi.command"]
            expect(len(e) == 1 and e[0][7] is not None and holds(din_rule, e[0][7]), "mismatch:reexecute_datain_length",
                   got=e[0][7] if e else None, rule=din_rule)
        standins.LOG.clear()
        bs = a2.get("blocksize", 512) if isinstance(a2, dict) else 512
        classes = [cmd.name.rstrip("0123456789")]
        nt = False
        if cmd.name in READS | WRITES and a2["tl"] >= 2 and bs != 512:
            nt = True
        if cmd.name in ALLOC and len(c.datain) >= 256:
            nt = True
        if cmd.name.startswith("atapassthrough") and a2["t_length"]:
            nt = True
            classes.append("ata_tlength_%d" % a2["t_length"])
        if cmd.name in PLIST and len(c.dataout) > {"modeselect6": 4, "modeselect10": 8, "persistentreserveout": 24,
                                                   "extendedcopy4": 16, "extendedcopy5": 48}[cmd.name]:
            nt = True
        if cmd.name.startswith("writesame") and a2.get("ndob"):
            nt = True
            classes.append("ndob")
        if cmd.name == "readcd" and a2["tl"] >= 1:
            nt = True
        return nt, classes
    return check


def run(ctx):
    for cmd in cmds.COMMANDS:
        t = cmd.tables()[0]
        k = ctx.n(150 * 8, 3000 * 16)
        common.search(ctx, "%s@%s" % (cmd.name, t), strategy(cmd), make_check(cmd, t), k)


def replay(ctx, subject, case):
    name, table = subject.split("@")
    make_check(cmds.BY_NAME[name], table)(case)


def floors(tier, classes, subjects, evaluations, distinct):
    out = []
    for c in ("ata_tlength_1", "ata_tlength_2", "ata_tlength_3", "ndob"):
        if not classes.get(c):
            out.append("class %s never generated" % c)
    return out
