"""C04 - well-formed device responses are decoded to the values the device sent.

For every response format: semantic values are generated, rendered to bytes by the independent
builders of pbt.stdspec.responses, presented (i) at exact length, (ii) zero-padded to an
allocation length, (iii) followed by random garbage beyond the reported length, and decoded
by the library; every modelled result key must equal the generated value, lists must have the
generated number of entries in order, nothing beyond the reported length may be reported."""
from hypothesis import strategies as st

from pbt import common, respgen
from pbt.common import Violation, expect

ID = "C04"
LEVEL = "exploration"
EXHAUSTIVE = False
SHARDS = {"quick": 8, "thorough": 16}
TECHNIQUE = "Hypothesis semantic values -> bytes via independent standards builders -> library decoder; expected-value tree comparison; exact / zero-padded / garbage-padded variants"
RULE = (
    "one case = (format, generated semantic values, padding variant, padding bytes); formats: standard INQUIRY, "
    "VPD 00/80/83/86/89/B0/B1/B2/B3, MODE SENSE 6/10 (one page, with block descriptors; multi-page separately), READ "
    "CAPACITY 10/16, GET LBA STATUS, REPORT LUNS, REPORT TARGET PORT GROUPS (both headers), REPORT PRIORITY, READ "
    "ELEMENT STATUS, PERSISTENT RESERVE IN x4, READ DISC INFORMATION x3, READ CD. Non-trivial = >= 2 descriptors "
    "(where the format has descriptors) or >= 3 fields at non-zero values, and for the garbage variant non-zero "
    "garbage present; distinct = distinct canonical JSON"
)
ASSUMPTIONS = [
    "pbt/stdspec/responses.py places fields as SPC-4/5, SBC-3, SMC-3, MMC-6, SAT-3 prescribe; fields it does not model are not compared",
    "the library may report more keys than the model lists; only modelled keys are compared",
    "READ CD: only (expected sector type, selection bits) combinations whose returned layout is unambiguous in MMC-6 are generated; sector header, mode 2 sub-header and the formatted Q sub-channel are compared field by field",
    "ATA Information VPD page: the SAT identification strings, the device signature registers (SAT-3 register FIS image) and IDENTIFY DEVICE words 0, 2, 10-19, 23-26, 27-46 are compared; other IDENTIFY words are not decoded by the library",
]

FORMATS = {}


def setup(ctx):
    common.import_pyscsi()
    for f in respgen.all_formats():
        FORMATS[f.name] = f


def case_strategy(f):
    return st.tuples(f.strategy, st.sampled_from(["exact", "zeros", "garbage"]), st.binary(min_size=0, max_size=48))


def nonzero_fields(v):
    n = 0
    if isinstance(v, dict):
        for x in v.values():
            n += nonzero_fields(x)
    elif isinstance(v, (list, tuple)):
        for x in v:
            n += nonzero_fields(x)
    elif isinstance(v, (bytes, bytearray)):
        n += 1 if any(v) else 0
    elif isinstance(v, int) and v:
        n += 1
    return n


def make_check(f):
    def check(t):
        v, variant, pad = t
        data = bytearray(f.build(v))
        if variant == "zeros":
            data += bytes(len(pad) + 4)
        elif variant == "garbage" and f.garbage_ok:
            data += pad
        try:
            got = f.decoder(data, v)
        except Exception as e:  # noqa
            raise Violation("exc:%s@%s" % (type(e).__name__, common.innermost_pyscsi_frame(e)),
                            {"error": repr(e)[:200], "variant": variant, "data": bytes(data[:64]).hex()})
        want = f.expect(v)
        d = respgen.compare(got, want)
        if d is not None:
            path, kind, g, w = d
            key = path.split(".")[-1].split("[")[0] or path
            raise Violation("mismatch:%s:%s" % (kind, key), {"path": path, "got": g, "want": w, "variant": variant,
                                                              "data": bytes(data[:96]).hex()})
        # the decoded values are what the device sent at that time: when the data-in buffer is filled again
        # (same command re-executed, buffer reused) a result obtained earlier does not change with it
        n_ = len(data)
        data[:] = (int.from_bytes(data, "big") ^ int.from_bytes(b"\xa5" * n_, "big")).to_bytes(n_, "big")
        d = respgen.compare(got, want)
        if d is not None:
            path, kind, g, w = d
            key = path.split(".")[-1].split("[")[0] or path
            raise Violation("mismatch:result_aliases_the_buffer:%s" % key, {"path": path, "got": g, "want": w})
        nd = f.ndesc(v)
        nt = (nd is not None and nd >= 2) or nonzero_fields(v) >= 3
        if variant == "garbage":
            nt = nt and any(pad)
        return nt, (variant,) + (("descs>=2",) if nd and nd >= 2 else ())
    return check


TWICE = {  # format -> (module, class, constructor arguments after the opcode)
    "prin_read_reservation": ("scsi_cdb_persistentreservein", "PersistentReserveInReadReservation", "PERSISTENT_RESERVE_IN"),
    "prin_report_capabilities": ("scsi_cdb_persistentreservein", "PersistentReserveInReportCapabilities", "PERSISTENT_RESERVE_IN"),
    "prin_read_keys": ("scsi_cdb_persistentreservein", "PersistentReserveInReadKeys", "PERSISTENT_RESERVE_IN"),
    "prin_read_full_status": ("scsi_cdb_persistentreservein", "PersistentReserveInReadFullStatus", "PERSISTENT_RESERVE_IN"),
    "getlbastatus": ("scsi_cdb_getlbastatus", "GetLBAStatus", None),
    "reportluns": ("scsi_cdb_report_luns", "ReportLuns", "REPORT_LUNS"),
    "rtpg": ("scsi_cdb_report_target_port_groups", "ReportTargetPortGroups", None),
}


def check_twice(fname):
    """one command object, executed and decoded twice (retry / polling): after the second
    decode the result is what a fresh decode of the second response gives - nothing of the first."""
    import importlib
    import pyscsi.pyscsi.scsi_enum_command as ec
    from pyscsi.utils.converter import get_opcode

    f = FORMATS[fname]
    mod, clsname, key = TWICE[fname]
    cls = getattr(importlib.import_module("pyscsi.pyscsi." + mod), clsname)

    def check(t):
        v1, v2 = t
        if fname == "getlbastatus":
            cmd = cls(next(get_opcode(ec.sbc, "9E")), 0, alloclen=4096)
        elif fname == "rtpg":
            cmd = cls(next(get_opcode(ec.spc, "A3")), alloclen=4096)
        else:
            cmd = cls(getattr(ec.spc, key), alloclen=4096)
        outs = []
        for v in (v1, v2):
            data = bytes(f.build(v))[:4096]
            cmd.datain[:] = bytes(4096)
            cmd.datain[:len(data)] = data
            try:
                cmd.unmarshall()
            except Exception as e:  # noqa
                raise Violation("exc:%s@%s" % (type(e).__name__, common.innermost_pyscsi_frame(e)), {"error": repr(e)[:200]})
            outs.append(cmd.result)
        fresh = cls.unmarshall_datain(bytearray(cmd.datain))
        if outs[1] != fresh:
            extra = sorted(set(outs[1] or {}) - set(fresh or {})) if isinstance(outs[1], dict) and isinstance(fresh, dict) else []
            raise Violation("mismatch:second_decode_carries_stale_data", {"stale_keys": extra, "got": common.short(outs[1], 300),
                                                                          "want": common.short(fresh, 300)})
        d = respgen.compare(outs[1], f.expect(v2))
        if d is not None:
            raise Violation("mismatch:second_decode:%s" % d[1], {"path": d[0], "got": d[2], "want": d[3]})
        return True, ("decode_twice",)
    return check


def run(ctx):
    for fname in TWICE:
        f = FORMATS[fname]
        common.search(ctx, fname + ":twice", st.tuples(f.strategy, f.strategy), check_twice(fname), ctx.n(40 * 8, 800 * 16))
    for name, f in FORMATS.items():
        common.search(ctx, name, case_strategy(f), make_check(f), ctx.n(100 * 8, 2500 * 16), max_causes=6)


def replay(ctx, subject, case):
    if subject.endswith(":twice"):
        return check_twice(subject.split(":")[0])(tuple(case))
    make_check(FORMATS[subject])(tuple(case))


def floors(tier, classes, subjects, evaluations, distinct):
    return ["variant %s never generated" % c for c in ("exact", "zeros", "garbage", "descs>=2") if not classes.get(c)]
