"""C04 - well-formed device responses are decoded to the values the device sent.

For every response format: semantic values are generated, rendered to bytes by the independent
builders of pbt.stdspec.responses, presented (i) at exact length, (ii) zero-padded to an
allocation length, (iii) followed by random garbage beyond the reported length, and decoded
by the library; every modelled result key must equal the generated value, lists must have the
generated number of entries in order, nothing beyond the reported length may be reported."""
from hypothesis import strategies as st

from pbt import common, respgen
from pbt.common import Violation, expect

ID = "C04"
LEVEL = "exploration"
EXHAUSTIVE = False
SHARDS = {"quick": 8, "thorough": 16}
TECHNIQUE = "Hypothesis semantic values -> bytes via independent standards builders -> library decoder; expected-value tree comparison; exact / zero-padded / garbage-padded variants"
RULE = (
    "one case = (format, generated semantic values, padding variant, padding bytes); formats: standard INQUIRY, "
    "VPD 00/80/83/86/89/B0/B1/B2/B3, MODE SENSE 6/10 (one page, with block descriptors; multi-page separately), READ "
    "CAPACITY 10/16, GET LBA STATUS, REPORT LUNS, REPORT TARGET PORT GROUPS (both headers), REPORT PRIORITY, READ "
    "ELEMENT STATUS, PERSISTENT RESERVE IN x4, READ DISC INFORMATION x3, READ CD. Non-trivial = >= 2 descriptors "
    "(where the format has descriptors) or >= 3 fields at non-zero values, and for the garbage variant non-zero "
    "garbage present; distinct = distinct canonical JSON"
)
ASSUMPTIONS = [
    "pbt/stdspec/responses.py places fields as SPC-4/5, SBC-3, SMC-3, MMC-6, SAT-3 prescribe; fields it does not model are not compared",
    "the library may report more keys than the model lists; only modelled keys are compared",
    "READ CD: only (expected sector type, selection bits) combinations whose returned layout is unambiguous in MMC-6 are generated; header/sub-header contents are not compared",
]

FORMATS = {}


def setup(ctx):
    common.import_pyscsi()
    for f in respgen.all_formats():
        FORMATS[f.name] = f


def case_strategy(f):
    return st.tuples(f.strategy, st.sampled_from(["exact", "zeros", "garbage"]), st.binary(min_size=0, max_size=48))


def nonzero_fields(v):
    n = 0
    if isinstance(v, dict):
        for x in v.values():
            n += nonzero_fields(x)
    elif isinstance(v, (list, tuple)):
        for x in v:
            n += nonzero_fields(x)
    elif isinstance(v, (bytes, bytearray)):
        n += 1 if any(v) else 0
    elif isinstance(v, int) and v:
        n += 1
    return n


def make_check(f):
    def check(t):
        v, variant, pad = t
        data = bytearray(f.build(v))
        if variant == "zeros":
            data += bytes(len(pad) + 4)
        elif variant == "garbage" and f.garbage_ok:
            data += pad
        try:
            got = f.decoder(data, v)
        except Exception as e:  # noqa
            raise Violation("exc:%s@%s" % (type(e).__name__, common.innermost_pyscsi_frame(e)),
                            {"error": repr(e)[:200], "variant": variant, "data": bytes(data[:64]).hex()})
        want = f.expect(v)
        d = respgen.compare(got, want)
        if d is not None:
            path, kind, g, w = d
            key = path.split(".")[-1].split("[")[0] or path
            raise Violation("mismatch:%s:%s" % (kind, key), {"path": path, "got": g, "want": w, "variant": variant,
                                                              "data": bytes(data[:96]).hex()})
        nd = f.ndesc(v)
        nt = (nd is not None and nd >= 2) or nonzero_fields(v) >= 3
        if variant == "garbage":
            nt = nt and any(pad)
        return nt, (variant,) + (("descs>=2",) if nd and nd >= 2 else ())
    return check


def run(ctx):
    for name, f in FORMATS.items():
        common.search(ctx, name, case_strategy(f), make_check(f), ctx.n(100 * 8, 2500 * 16), max_causes=6)


def replay(ctx, subject, case):
    make_check(FORMATS[subject])(tuple(case))


def floors(tier, classes, subjects, evaluations, distinct):
    return ["variant %s never generated" % c for c in ("exact", "zeros", "garbage", "descs>=2") if not classes.get(c)]
