"""C05 - parameter lists sent to the device have the standard layout and honest lengths.

Valid parameter dictionaries are generated; the command must construct, its data-out must be
byte-for-byte what an independent builder (pbt.stdspec.paramlists) produces for the same
values (positions, every embedded length, zeros elsewhere), and the CDB's PARAMETER LIST
LENGTH must equal the length of the list."""
from hypothesis import strategies as st

from pbt import cmds, common, paramgen
from pbt.common import Violation, expect, lib
from pbt.stdspec import cdb as S
from pbt.stdspec import paramlists as P

ID = "C05"
LEVEL = "exploration"
EXHAUSTIVE = False
SHARDS = {"quick": 8, "thorough": 16}
TECHNIQUE = "Hypothesis parameter dictionaries -> library composer vs independent standards builder, byte-for-byte (differential oracle) + CDB parameter-list-length audit; iSCSI name lengths 1..223 enumerated"
RULE = (
    "one case = a valid parameter dictionary: mode parameter lists (6/10) with 1..3 marshallable pages; PR OUT "
    "for service actions 0..8 x scope x type x 64-bit keys x flag bits, 0..6 TransportIDs of every kind (iSCSI "
    "names of every length 1..223, with/without session id), REGISTER AND MOVE with/without TransportID; EXTENDED "
    "COPY LID1/LID4 with 0..6 identification descriptors (every designator kind that fits, every device type) "
    "and 0..8 segment descriptors of all six implemented type codes given as int, name or description, inline "
    "data. Non-trivial = a TransportID whose string length is not a multiple of 4, or >= 2 descriptors, or a mode "
    "page with >= 3 non-zero fields; distinct = distinct canonical JSON"
)
ASSUMPTIONS = [
    "stdspec/paramlists.py transcribes SPC-4/5 parameter list layouts correctly",
    "MODE DATA LENGTH (reserved in MODE SELECT) may be zero or the value MODE SENSE would report",
    "iSCSI TransportIDs may or may not be padded to the 20-byte minimum ADDITIONAL LENGTH",
    "SOP TransportIDs are not modelled: lists containing one are only judged for construction and CDB length",
]


def setup(ctx):
    common.import_pyscsi()


def first_diff(a, b):
    n = min(len(a), len(b))
    for i in range(n):
        if a[i] != b[i]:
            return i
    return n


def judge_bytes(got, variants, what):
    got = bytes(got)
    if got in variants:
        return
    best = max(variants, key=lambda v: first_diff(got, v))
    i = first_diff(got, best)
    raise Violation("mismatch:%s" % what, {"offset": i, "got_len": len(got), "want_len": len(best),
                                            "got": got[max(0, i - 4):i + 12].hex(), "want": best[max(0, i - 4):i + 12].hex()})


def judge_cdb(std, c):
    probs = S.audit(std, c.cdb)
    expect(not probs, "mismatch:cdb_audit", problems=probs)
    f = S.decode(std, c.cdb)
    expect(f["PARAMETER LIST LENGTH"] == len(c.dataout), "mismatch:parameter_list_length", cdb=f["PARAMETER LIST LENGTH"],
           actual=len(c.dataout))
    return f


# ---- MODE SELECT --------------------------------------------------------------------------------
def check_mode(ten):
    cmd = cmds.BY_NAME["modeselect10" if ten else "modeselect6"]

    def check(case):
        data, opt = case
        d0 = paramgen.strip_notes(data)
        with lib("constructor"):
            c = cmd.cls(cmd.opcode("spc"), d0, **opt)
        with lib("constructor, same dictionary objects again"):
            c2 = cmd.cls(cmd.opcode("spc"), d0, **opt)
        expect(bytes(c2.dataout) == bytes(c.dataout), "mismatch:second_use_of_the_same_dictionaries_differs")
        f = judge_cdb(cmd.std, c)
        for k, fld in (("pf", "PF"), ("sp", "SP")):
            expect(f[fld] == opt.get(k, cmd.defaults[k]), "mismatch:cdb_field:" + fld, got=f[fld])
        judge_bytes(c.dataout, P.mode_select(data, ten), "mode_parameter_list")
        with lib("marshall_dataout"):
            again = cmd.cls.marshall_dataout(paramgen.strip_notes(data))
        expect(bytes(again) == bytes(c.dataout), "mismatch:marshall_dataout_differs_from_ctor")
        nz = max(sum(1 for k, v in p.items() if k not in ("ps", "spf", "page_code", "sub_page_code") and v) for p in data["mode_pages"])
        return nz >= 3 or len(data["mode_pages"]) >= 2, ("pages_%d" % len(data["mode_pages"]),)
    return check


# ---- PERSISTENT RESERVE OUT -----------------------------------------------------------------------
def check_prout(table):
    cmd = cmds.BY_NAME["persistentreserveout"]

    def check(a):
        kw = paramgen.strip_notes(a["kw"])
        extra = {k: a[k] for k in ("scope", "pr_type") if k in a}
        with lib("constructor"):
            c = cmd.cls(cmd.opcode(table), a["service_action"], **extra, **kw)
        with lib("constructor, same dictionary objects again"):
            c2 = cmd.cls(cmd.opcode(table), a["service_action"], **extra, **kw)
        expect(bytes(c2.dataout) == bytes(c.dataout), "mismatch:second_use_of_the_same_dictionaries_differs")
        f = judge_cdb(cmd.std, c)
        expect(f["SERVICE ACTION"] == a["service_action"] and f["SCOPE"] == a.get("scope", 0) and f["TYPE"] == a.get("pr_type", 0),
               "mismatch:cdb_fields", got=f)
        variants = P.prout(a["service_action"], a["kw"])
        tids = list(a["kw"].get("transport_ids", [])) + ([a["kw"]["transport_id"]] if a["kw"].get("transport_id") else [])
        cl = ["sa_%d" % a["service_action"]] + sorted({"tid_proto_%d" % t["protocol_id"] for t in tids})
        if variants is None:
            return False, cl + ["unmodelled_sop"]
        judge_bytes(c.dataout, variants, "prout_parameter_list")
        odd = any(t["protocol_id"] == 5 and (len(t["iscsi_name"]) + (5 + len(t.get("iscsi_initiator_session_id", "")) if t.get("tpid_format") else 0)) % 4 for t in tids)
        return odd or len(tids) >= 2, cl
    return check


def check_iscsi_len(case):
    """every iSCSI name length 1..223 (every residue of the padding rule), alone."""
    from pyscsi.pyscsi.scsi_cdb_persistentreservein import PersistentReserveInReadFullStatus as RFS

    n, isid = case
    t = {"protocol_id": 5, "iscsi_name": ("iqn.2000-01.x:" + "n" * 223)[:n]}
    if isid:
        t.update(tpid_format=1, iscsi_initiator_session_id=isid)
    with lib("marshall_transport_id"):
        got = RFS.marshall_transport_id(dict(t))
    judge_bytes(got, P.transport_ids(t), "transport_id")
    with lib("unmarshall_transport_id"):
        back = RFS.unmarshall_transport_id(bytearray(got))
    expect(back.get("iscsi_name") == t["iscsi_name"], "mismatch:transport_id_roundtrip", got=back.get("iscsi_name"))
    return True, ("iscsi_len",)


# ---- near twins ------------------------------------------------------------------------------------
# free bit-fields of EXTENDED COPY descriptors: key -> number of values (changing one of them changes
# exactly that field of the list; everything else - designators, lengths - stays as it was)
TWIN_FIELDS = {"association": 3, "relative_initiator_port_identifier": 1 << 16, "pad": 2, "fixed": 2,
               "stream_block_length": 1 << 24, "disk_block_length": 1 << 24, "cat": 2, "dc": 2, "fco": 2,
               "block_device_number_of_blocks": 1 << 16, "stream_device_transfer_length": 1 << 24,
               "source_block_device_logical_block_address": 1 << 64,
               "destination_block_device_logical_block_address": 1 << 64}


def twins(a, limit=3):
    """copies of the argument structure `a` that differ from it in one free field of one descriptor."""
    import copy

    sites = []

    def walk(x, path):
        if isinstance(x, dict):
            for k, v in x.items():
                if k in TWIN_FIELDS and isinstance(v, int) and not isinstance(v, bool):
                    sites.append(path + (k,))
                else:
                    walk(v, path + (k,))
        elif isinstance(x, list):
            for i, v in enumerate(x):
                walk(v, path + (i,))

    walk(a, ())
    if not sites:
        return
    picks = {0, len(sites) // 2, len(sites) - 1}
    for i in sorted(picks)[:limit]:
        b = copy.deepcopy(a)
        x = b
        for k in sites[i][:-1]:
            x = x[k]
        k = sites[i][-1]
        x[k] = (x[k] + 1) % TWIN_FIELDS[k]
        yield sites[i], b


# ---- EXTENDED COPY ----------------------------------------------------------------------------------
def check_xcopy(spc5, table):
    cmd = cmds.BY_NAME["extendedcopy5" if spc5 else "extendedcopy4"]

    def check(a):
        args = paramgen.strip_notes(a)
        with lib("constructor"):
            c = cmd.cls(cmd.opcode(table), **args)
        judge_cdb(cmd.std, c)
        judge_bytes(c.dataout, [P.xcopy(a, spc5)], "xcopy_parameter_list")
        # a dictionary that was used once is still a valid parameter dictionary (retry, [seg, seg], reuse)
        with lib("constructor, same dictionary objects again"):
            c2 = cmd.cls(cmd.opcode(table), **args)
        expect(bytes(c2.dataout) == bytes(c.dataout), "mismatch:second_use_of_the_same_dictionaries_differs")
        # a command that differs from the one just built in a single descriptor field (same designators,
        # same everything else) gets its own parameter list, not a remembered one
        for site, b in twins(a):
            with lib("constructor (near twin)"):
                cb = cmd.cls(cmd.opcode(table), **paramgen.strip_notes(b))
            try:
                judge_bytes(cb.dataout, [P.xcopy(b, spc5)], "xcopy_parameter_list")
            except Violation as v:
                raise Violation("mismatch:xcopy_parameter_list_of_near_twin", dict(v.detail, changed=str(site[-1])))
        lst = a.get("cscd_descriptor_list" if spc5 else "target_descriptor_list", [])
        segs = a.get("segment_descriptor_list", [])
        cl = sorted({"seg_%02X" % s["_code"] for s in segs}) + sorted({"pdt_%02X" % d["_pdt"] for d in lst})
        return len(lst) >= 2 or len(segs) >= 2, cl
    return check


def opt_strategy():
    return st.fixed_dictionaries({}, optional={"pf": st.integers(0, 1), "sp": st.integers(0, 1)})


def run(ctx):
    k = ctx.n(150 * 8, 8000 * 16)
    for ten in (False, True):
        common.search(ctx, "modeselect10" if ten else "modeselect6", st.tuples(paramgen.mode_data(ten), opt_strategy()),
                      check_mode(ten), k)
    for table in ("spc", "smc"):
        common.search(ctx, "persistentreserveout@" + table, paramgen.prout_args(), check_prout(table), k)
    i = 0
    for n in range(1, 224):
        for isid in ("", "1", "abcdef012345"):
            i += 1
            if ctx.mine(i):
                common.run_one(ctx, "iscsi_name_lengths", (n, isid), check_iscsi_len)
    ctx.exhaustive_parts.append("iSCSI TransportIDs for every name length 1..223 x {no session id, 1-char, 12-char session id}")
    for spc5 in (False, True):
        for table in ("spc", "ssc"):
            common.search(ctx, "extendedcopy%s@%s" % ("5" if spc5 else "4", table), paramgen.xcopy_args(spc5), check_xcopy(spc5, table), k)


def replay(ctx, subject, case):
    if subject.startswith("modeselect"):
        check_mode(subject.endswith("10"))(tuple(case))
    elif subject.startswith("persistentreserveout"):
        check_prout(subject.split("@")[1])(case)
    elif subject == "iscsi_name_lengths":
        check_iscsi_len(tuple(case))
    else:
        check_xcopy(subject[12] == "5", subject.split("@")[1])(case)


def floors(tier, classes, subjects, evaluations, distinct):
    need = ["sa_0", "sa_7", "tid_proto_0", "tid_proto_3", "tid_proto_4", "tid_proto_5", "tid_proto_6", "seg_00", "seg_01",
            "seg_02", "seg_0B", "seg_0C", "seg_0D", "pdt_01", "pdt_03", "pages_2", "iscsi_len"]
    return ["class %s never generated" % c for c in need if not classes.get(c)]
