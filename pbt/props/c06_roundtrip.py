"""C06 - parameter data survives a build/parse round trip and read-modify-write.

(a) values -> marshall -> unmarshall gives the values back; (b) canonical device bytes (built by
pbt.stdspec.responses) -> unmarshall -> marshall reproduces them byte for byte; (c) read a mode
page / READ CAPACITY(16) data, change one field, write it back: only that field's bits change."""
from hypothesis import strategies as st

from pbt import common, devs, respgen
from pbt.common import Violation, expect, lib
from pbt.gen import fv
from pbt.paramgen import designator, iscsi_name
from pbt.stdspec import responses as R

ID = "C06"
LEVEL = "exploration"
EXHAUSTIVE = False
SHARDS = {"quick": 8, "thorough": 16}
TECHNIQUE = "Hypothesis round trips in both directions per structure (values->bytes->values, canonical bytes->values->bytes) and a single-field read-modify-write metamorphic relation judged at the standard's field position"
RULE = (
    "per structure with both directions (standard INQUIRY, VPD 80/83/86/B2/B3 with all designator kinds and NAA "
    "formats, mode parameter lists 6/10, READ CAPACITY 10/16, GET LBA STATUS, REPORT LUNS, REPORT TARGET PORT "
    "GROUPS, READ ELEMENT STATUS with volume tags, TransportIDs): (a) generated value dictionaries, (b) canonical "
    "byte strings from the independent builders (reserved bits zero, no trailing space), (c) canonical response + "
    "one generated field + new value, also through modesense -> result -> modeselect on a device object. "
    "Non-trivial: (a)/(b) >= 2 descriptors or a designator/TransportID present; (c) the changed field shares its "
    "byte with another non-zero field; distinct = distinct canonical JSON"
)
ASSUMPTIONS = [
    "canonical = what this library can represent: no block descriptors in mode lists, one mode page per list for bytes->values->bytes, element descriptors with the 4 trailing bytes the library writes, iSCSI names long enough for the 20-byte minimum",
    "MODE DATA LENGTH of a MODE SELECT list may be zero or the MODE SENSE value",
    "(c) positions come from pbt/stdspec/responses.py",
]

F = {}


def setup(ctx):
    common.import_pyscsi()
    for f in respgen.all_formats():
        F[f.name] = f


def L(mod, cls):
    import importlib

    return getattr(importlib.import_module("pyscsi.pyscsi." + mod), cls)


def tid_strategy():
    return st.one_of(respgen.tid_strategy(),
                     st.fixed_dictionaries({"protocol_id": st.just(0x0A), "tpid_format": st.just(0), "routing_id": respgen.b(8)}))


# ---------------------------------------------------------------------------------------
# structures: name -> (value strategy (library vocabulary), marshall, unmarshall, canonical-bytes strategy)
# ---------------------------------------------------------------------------------------
def subset(d, keep_all=False):
    """strategy: a random subset of the optional keys of fixed dict strategy d."""
    return st.fixed_dictionaries({}, optional=d) if not keep_all else st.fixed_dictionaries(d)


def structures():
    Inq = L("scsi_cdb_inquiry", "Inquiry")
    out = {}
    pq = {"peripheral_qualifier": st.integers(0, 7), "peripheral_device_type": st.integers(0, 31)}

    # standard inquiry
    std = {k: fv(w) for k, (b, m, w) in R.STD_INQUIRY.items()}
    std.update(t10_vendor_identification=respgen.b(8), product_identification=respgen.b(16), product_revision_level=respgen.b(4))
    out["inquiry_std"] = dict(
        values=st.fixed_dictionaries({}, optional=std),
        marshall=Inq.marshall_datain, unmarshall=lambda b_: Inq.unmarshall_datain(b_, evpd=0),
        canon=st.fixed_dictionaries(std).map(lambda v: bytes(R.std_inquiry(v, 96))), nd=lambda v: 0)

    def vpd(page, body, canon, nd=lambda v: 0):
        return dict(values=st.fixed_dictionaries(dict(pq, page_code=st.just(page), **body)),
                    marshall=Inq.marshall_datain, unmarshall=lambda b_: Inq.unmarshall_datain(b_, evpd=1), canon=canon, nd=nd)
    out["vpd_80"] = vpd(0x80, {"unit_serial_number": st.binary(max_size=32)},
                        st.binary(max_size=32).map(lambda s_: bytes(R.vpd_serial(s_))))
    out["vpd_86"] = vpd(0x86, {k: fv(w) for k, (b, m, w) in R.EXT_INQUIRY.items()},
                        respgen.dict_of(R.EXT_INQUIRY).map(lambda v: bytes(R.vpd_extended(v))))
    out["vpd_b2"] = vpd(0xB2, {k: fv(w) for k, (b, m, w) in R.LBP.items()},
                        respgen.dict_of(R.LBP).map(lambda v: bytes(R.vpd_lbp(v))))
    out["vpd_b3"] = vpd(0xB3, {k: fv(w) for k, (b, m, w) in R.REFERRALS.items()},
                        respgen.dict_of(R.REFERRALS).map(lambda v: bytes(R.vpd_referrals(v))))

    # device identification: every designator kind
    name_string = st.tuples(st.just(8), st.just(3), st.fixed_dictionaries({"scsi_name_string": iscsi_name(40).map(
        lambda s_: (lambda raw: raw + bytes(-len(raw) % 4))(s_.encode() + b"\0"))}))
    pcie = st.tuples(st.just(9), st.just(1), st.fixed_dictionaries({"pci_express_routing_id": fv(16)}))

    def mk_desc(t):
        (dt, cs, des), piv, assoc, proto = t
        d = {"designator_type": dt, "code_set": cs, "designator": des, "piv": piv, "association": assoc}
        if piv and assoc in (1, 2):
            d["protocol_identifier"] = proto
        return d
    desc_lib = st.tuples(st.one_of(designator(60), name_string, pcie), st.integers(0, 1), st.integers(0, 2), fv(4)).map(mk_desc)
    desc_std = st.tuples(st.one_of(designator(60), name_string), st.integers(0, 1), st.integers(0, 2), fv(4)).map(mk_desc)
    out["vpd_83"] = vpd(0x83, {"designator_descriptors": st.lists(desc_lib, max_size=6)},
                        st.lists(desc_std, max_size=6).map(lambda ds: bytes(R.vpd_device_identification(ds))),
                        nd=lambda v: 2 if v.get("designator_descriptors") else 0)

    # mode parameter lists (one page; no block descriptors)
    for ten in (False, True):
        cls = L("scsi_cdb_modesense10" if ten else "scsi_cdb_modesense6", "ModeSense10" if ten else "ModeSense6")
        hdr = {"medium_type": fv(8), "device_specific_parameter": fv(8)}
        if ten:
            hdr["longlba"] = st.integers(0, 1)
        vals = st.tuples(st.fixed_dictionaries(hdr), respgen.one_page()).map(lambda t: dict(t[0], mode_pages=[t[1]]))
        canon = st.tuples(st.fixed_dictionaries(hdr), respgen.one_page()).map(
            lambda t, ten=ten: bytes((R.mode10 if ten else R.mode6)(t[0], [t[1]])))
        out["mode10" if ten else "mode6"] = dict(values=vals, marshall=cls.marshall_datain, unmarshall=cls.unmarshall_datain,
                                                 canon=canon, nd=lambda v: 0)

    RC10 = L("scsi_cdb_readcapacity10", "ReadCapacity10")
    out["readcapacity10"] = dict(values=st.fixed_dictionaries({}, optional={"returned_lba": fv(32), "block_length": fv(32)}),
                                 marshall=RC10.marshall_datain, unmarshall=RC10.unmarshall_datain,
                                 canon=st.fixed_dictionaries({"returned_lba": fv(32), "block_length": fv(32)}).map(
                                     lambda v: bytes(R.read_capacity10(v))), nd=lambda v: 0)
    RC16 = L("scsi_cdb_readcapacity16", "ReadCapacity16")
    out["readcapacity16"] = dict(values=st.fixed_dictionaries({}, optional={k: fv(w) for k, (b, m, w) in R.READCAP16.items()}),
                                 marshall=RC16.marshall_datain, unmarshall=RC16.unmarshall_datain,
                                 canon=respgen.dict_of(R.READCAP16).map(lambda v: bytes(R.read_capacity16(v))), nd=lambda v: 0)
    G = L("scsi_cdb_getlbastatus", "GetLBAStatus")
    lbad = st.fixed_dictionaries({"lba": fv(64), "num_blocks": fv(32), "p_status": fv(4)})
    out["getlbastatus"] = dict(values=st.lists(lbad, max_size=12).map(lambda l: {"lbas": l}), marshall=G.marshall_datain,
                               unmarshall=G.unmarshall_datain, canon=st.lists(lbad, max_size=12).map(lambda l: bytes(R.get_lba_status(l))),
                               nd=lambda v: len(v["lbas"]))
    RL = L("scsi_cdb_report_luns", "ReportLuns")
    out["reportluns"] = dict(values=st.lists(fv(64), max_size=12).map(lambda l: {"luns": [{"lun": x} for x in l]}),
                             marshall=RL.marshall_datain, unmarshall=RL.unmarshall_datain,
                             canon=st.lists(fv(64), max_size=12).map(lambda l: bytes(R.report_luns(l))), nd=lambda v: len(v["luns"]),
                             compare=lambda got, d: respgen.compare(got, {"luns": [{"$anykey": x["lun"]} for x in d["luns"]]}))
    T = L("scsi_cdb_report_target_port_groups", "ReportTargetPortGroups")
    grp = st.fixed_dictionaries(dict({k: fv(w) for k, (b, m, w) in R.TPG_DESC.items()}, ports=st.lists(fv(16), max_size=4)))

    def tpg_lib(t):
        groups, ext, itt = t
        d = {"target_port_group_descriptors": [dict({k: g[k] for k in R.TPG_DESC}, target_port_count=len(g["ports"]),
                                                    target_ports=[{"relative_target_port_id": p} for p in g["ports"]]) for g in groups]}
        if ext:
            d.update(format_type=1, implicit_transition_time=itt)
        return d
    tpg = st.tuples(st.lists(grp, max_size=5), st.booleans(), fv(8))
    out["rtpg"] = dict(values=tpg.map(tpg_lib), marshall=T.marshall_datain, unmarshall=T.unmarshall_datain,
                       canon=tpg.map(lambda t: bytes(R.rtpg(t[0], t[1], t[2]))), nd=lambda v: len(v["target_port_group_descriptors"]))
    E = L("scsi_cdb_readelementstatus", "ReadElementStatus")

    def es_lib(t):
        first, num, pages = t
        return {"first_element_address": first, "num_elements": num,
                "element_status_pages": [{"element_type": p["element_type"], "pvoltag": p["pvoltag"], "avoltag": p["avoltag"],
                                          "element_descriptors": [dict(e) for e in p["elements"]]} for p in pages]}

    def es_compare(got, d):
        # exactly the keys of each descriptor's element type come back (no fields of other types)
        want = dict(d, element_status_pages=[dict(p, element_descriptors=[dict(e, **{"$exact": True}) for e in p["element_descriptors"]])
                                               for p in d["element_status_pages"]])
        return respgen.compare(got, want)
    pages = st.lists(respgen.element_page().map(lambda p: dict(p, extra_len=4)), max_size=3)
    es = st.tuples(fv(16), fv(16), pages)
    out["readelementstatus"] = dict(values=es.map(es_lib), marshall=E.marshall_datain, unmarshall=E.unmarshall_datain,
                                    canon=es.map(lambda t: bytes(R.element_status(t[0], t[1], t[2]))),
                                    nd=lambda v: sum(len(p["element_descriptors"]) for p in v["element_status_pages"]),
                                    compare=es_compare)
    RFS = L("scsi_cdb_persistentreservein", "PersistentReserveInReadFullStatus")
    long_names = st.one_of(respgen.tid_strategy().filter(lambda t: t["protocol_id"] != 5),
                           st.fixed_dictionaries({"protocol_id": st.just(5), "tpid_format": st.just(0),
                                                  "iscsi_name": st.integers(19, 120).flatmap(lambda n: st.text(alphabet="abcdefghij.:-0123456789", min_size=n, max_size=n))}))
    out["transport_id"] = dict(values=tid_strategy(), marshall=RFS.marshall_transport_id, unmarshall=RFS.unmarshall_transport_id,
                               canon=long_names.map(lambda t: bytes(R.transport_id(t))), nd=lambda v: 2)
    return out


def make_check_a(name, s):
    def check(d):
        import copy

        with lib("marshall"):
            b = s["marshall"](copy.deepcopy(d))
        expect(isinstance(b, (bytes, bytearray)), "mismatch:marshall_type", got=type(b).__name__)
        with lib("unmarshall"):
            back = s["unmarshall"](bytearray(b))
        diff = s["compare"](back, d) if "compare" in s else respgen.compare(back, d)
        if diff is not None:
            path, kind, g, w = diff
            raise Violation("mismatch:values_roundtrip:%s:%s" % (kind, path.split(".")[-1].split("[")[0]),
                            {"path": path, "got": g, "want": w, "bytes": bytes(b[:64]).hex()})
        return s["nd"](d) >= 2 or respgen_nonzero(d) >= 3, ("a",)
    return check


def respgen_nonzero(v):
    from pbt.props.c04_responses import nonzero_fields

    return nonzero_fields(v)


def make_check_b(name, s):
    def check(b):
        with lib("unmarshall"):
            d = s["unmarshall"](bytearray(b))
        with lib("marshall"):
            b2 = s["marshall"](d)
        if bytes(b2) != bytes(b):
            i = next((j for j in range(min(len(b), len(b2))) if b[j] != b2[j]), min(len(b), len(b2)))
            raise Violation("mismatch:bytes_roundtrip", {"offset": i, "got_len": len(b2), "want_len": len(b),
                                                         "got": bytes(b2[max(0, i - 4):i + 12]).hex(), "want": bytes(b[max(0, i - 4):i + 12]).hex()})
        # the decoded structure (whose byte strings are slices of the response: bytearrays) re-encodes to the
        # same bytes every time, not only the first time
        with lib("marshall again"):
            b3 = s["marshall"](d)
        if bytes(b3) != bytes(b):
            i = next((j for j in range(min(len(b), len(b3))) if b[j] != b3[j]), min(len(b), len(b3)))
            raise Violation("mismatch:bytes_roundtrip_second_encode",
                            {"offset": i, "got_len": len(b3), "want_len": len(b),
                             "got": bytes(b3[max(0, i - 4):i + 12]).hex(), "want": bytes(b[max(0, i - 4):i + 12]).hex()})
        return len(b) > 24 and sum(1 for x in b if x) >= 4, ("b",)
    return check


# ---------------------------------------------------------------------------------------
# (c) read-modify-write
# ---------------------------------------------------------------------------------------
@st.composite
def rmw_case(draw):
    kind = draw(st.sampled_from(["mode6", "mode10", "readcapacity16"]))
    if kind == "readcapacity16":
        v = draw(respgen.dict_of(R.READCAP16))
        key = draw(st.sampled_from(sorted(R.READCAP16)))
        new = draw(fv(R.READCAP16[key][2]))
        return {"kind": kind, "v": v, "key": key, "new": new, "facade": False}
    hdr = {"medium_type": draw(fv(8)), "device_specific_parameter": draw(fv(8))}
    page = draw(respgen.one_page())
    sub = page.get("sub_page_code") if page["spf"] else None
    table = R.MODE_PAGES[(page["page_code"], sub)][0]
    key = draw(st.sampled_from(sorted(table)))
    new = draw(fv(table[key][2]))
    return {"kind": kind, "hdr": hdr, "page": page, "key": key, "new": new, "facade": draw(st.booleans())}


def field_mask(nbytes, pos):
    byte, msb, width = pos
    start = 8 * byte + (7 - msb)
    return ((1 << width) - 1) << (8 * nbytes - start - width)


def check_rmw(case):
    kind = case["kind"]
    if kind == "readcapacity16":
        cls = L("scsi_cdb_readcapacity16", "ReadCapacity16")
        orig = bytes(R.read_capacity16(case["v"]))
        with lib("unmarshall"):
            d = cls.unmarshall_datain(bytearray(orig))
        d[case["key"]] = case["new"]
        with lib("marshall"):
            new = bytes(cls.marshall_datain(d))
        pos = R.READCAP16[case["key"]]
        header = 0
        shares = any(k != case["key"] and p[0] == pos[0] and case["v"][k] for k, p in R.READCAP16.items())
    else:
        ten = kind == "mode10"
        cls = L("scsi_cdb_modesense10" if ten else "scsi_cdb_modesense6", "ModeSense10" if ten else "ModeSense6")
        sel = L("scsi_cdb_modesense10" if ten else "scsi_cdb_modesense6", "ModeSelect10" if ten else "ModeSelect6")
        page = case["page"]
        orig = bytes((R.mode10 if ten else R.mode6)(case["hdr"], [page]))
        sub = page.get("sub_page_code") if page["spf"] else None
        table = R.MODE_PAGES[(page["page_code"], sub)][0]
        if case["facade"]:
            def responder(dev, c, rec):
                if c.datain is not None and len(c.datain):
                    n = min(len(orig), len(c.datain))
                    c.datain[:n] = orig[:n]
            s, dev = devs.attach("spc", responder=responder)
            with lib("modesense"):
                kw = {"sub_page_code": sub} if sub is not None else {}
                d = getattr(s, "modesense10" if ten else "modesense6")(page["page_code"], alloclen=len(orig), **kw).result
            d["mode_pages"][0][case["key"]] = case["new"]
            with lib("modeselect"):
                getattr(s, "modeselect10" if ten else "modeselect6")(d)
            new = dev.calls[-1]["dataout"]
        else:
            with lib("unmarshall"):
                d = cls.unmarshall_datain(bytearray(orig))
            d["mode_pages"][0][case["key"]] = case["new"]
            with lib("marshall_dataout"):
                new = bytes(sel.marshall_dataout(d))
        header = 8 if ten else 4
        byte, msb, width = table[case["key"]]
        pos = (byte + header, msb, width)
        shares = any(k != case["key"] and p[0] == byte and page.get(k) for k, p in table.items())
        # MODE DATA LENGTH is reserved in MODE SELECT: ignore it in both strings
        n = 2 if ten else 1
        orig = bytes(n) + orig[n:]
        new = bytes(n) + bytes(new[n:])
    expect(len(new) == len(orig), "mismatch:rmw_length_changed", got=len(new), want=len(orig))
    mask = field_mask(len(orig), pos)
    a, b = int.from_bytes(orig, "big"), int.from_bytes(new, "big")
    expect((a ^ b) & ~mask == 0, "mismatch:rmw_changed_other_bits", field=case["key"], before=orig, after=new)
    byte, msb, width = pos
    got = (b & mask) >> (8 * len(orig) - (8 * byte + 7 - msb) - width)
    expect(got == case["new"], "mismatch:rmw_field_value", field=case["key"], got=got, want=case["new"])
    return shares, ("c_" + kind,) + (("c_facade",) if case.get("facade") else ())


def run(ctx):
    k = ctx.n(120 * 8, 4000 * 16)
    for name, s in structures().items():
        common.search(ctx, name + ":a", s["values"], make_check_a(name, s), k)
        common.search(ctx, name + ":b", s["canon"], make_check_b(name, s), k)
    common.search(ctx, "rmw", rmw_case(), check_rmw, 3 * k)
    if ctx.mine(0):
        common.run_one(ctx, "getlbastatus:minimal", {}, check_minimal_getlbastatus)
        common.run_one(ctx, "reportluns:minimal", {}, check_minimal_reportluns)


def check_minimal_reportluns(case):
    """REPORT LUNS parameter data built from a dictionary without a LUN list: LUN LIST LENGTH 0, no entries."""
    RL = L("scsi_cdb_report_luns", "ReportLuns")
    with lib("marshall"):
        b = bytes(RL.marshall_datain(dict(case)))
    want = bytes(R.report_luns([]))
    expect(b == want, "mismatch:bytes_of_minimal_structure", got=b, want=want)
    with lib("unmarshall"):
        back = RL.unmarshall_datain(bytearray(b))
    expect(list(back.get("luns", [None])) == [], "mismatch:values_roundtrip:minimal", got=back)
    return False, ("minimal",)


def check_minimal_getlbastatus(case):
    """GET LBA STATUS parameter data built from a dictionary without the optional descriptor list is the
    canonical empty response (PARAMETER DATA LENGTH 4, no descriptors)."""
    G = L("scsi_cdb_getlbastatus", "GetLBAStatus")
    with lib("marshall"):
        b = bytes(G.marshall_datain(dict(case)))
    want = bytes(R.get_lba_status([]))
    expect(b == want, "mismatch:bytes_of_minimal_structure", got=b, want=want)
    with lib("unmarshall"):
        back = G.unmarshall_datain(bytearray(b))
    expect(list(back.get("lbas", [None])) == [], "mismatch:values_roundtrip:minimal", got=back)
    return False, ("minimal",)


def replay(ctx, subject, case):
    if subject == "rmw":
        return check_rmw(case)
    if subject == "getlbastatus:minimal":
        return check_minimal_getlbastatus(case)
    if subject == "reportluns:minimal":
        return check_minimal_reportluns(case)
    name, mode = subject.split(":")
    s = structures()[name]
    (make_check_a if mode == "a" else make_check_b)(name, s)(case)


def floors(tier, classes, subjects, evaluations, distinct):
    return ["class %s never generated" % c for c in ("a", "b", "c_mode6", "c_mode10", "c_readcapacity16", "c_facade")
            if not classes.get(c)]
