"""C07 - a command that did not complete with GOOD status never looks successful.

Fault injection over both transports: generated histories of commands, each with an injected
status byte and (for CHECK CONDITION) a generated sense buffer, through device.execute directly
and through every facade method; oracle = expected-outcome table written from the property."""
from hypothesis import strategies as st

from pbt import cmds, common, gen, transports
from pbt.common import Violation, expect, lib
from pbt.stdspec import responses as R

ID = "C07"
LEVEL = "fault_enumeration"
EXHAUSTIVE = False
SHARDS = {"quick": 4, "thorough": 16}
TECHNIQUE = "fault injection: Hypothesis histories of (command, injected status, sense buffer, raw-sense flag, re-execution) on SG_IO and iSCSI stand-ins + sweep of all 256 status bytes x transports x raw-sense x {direct, every facade method}; expected-outcome oracle"
RULE = (
    "history case = transport + 1..12 steps (command, injected status drawn from all 256 values with named "
    "ones weighted, sense buffer in fixed/descriptor current/deferred format with any key/ASC/ASCQ and length, "
    "en_raw_sense, optional re-execution of the previous command object). Sweep case = (status byte, transport, "
    "raw-sense, direct or facade method). Non-trivial = a history with a failure followed by a success, or a "
    "CHECK CONDITION with descriptor-format or deferred sense; sweep cases with status != GOOD; distinct = "
    "distinct canonical JSON"
)
ASSUMPTIONS = [
    "stand-in bindings: sgio reports CHECK CONDITION by CheckConditionError(sense) and every other non-GOOD outcome by UnspecifiedError (no status byte); iscsi sets Task.status and Task.raw_sense",
    "on SG_IO, statuses other than CHECK CONDITION: 'an exception reaches the caller' (the binding does not convey which status)",
    "with en_raw_sense=True a CHECK CONDITION may either raise or return with cmd.raw_sense_data equal to the injected sense",
    "GOOD status with an all-zero data-in buffer: decode errors of the facade are not judged here (C13/C04)",
]

NAMED = {0x04: "ConditionsMet", 0x08: "BusyStatus", 0x18: "ReservationConflict", 0x28: "TaskSetFull",
         0x30: "ACAActive", 0x40: "TaskAborted"}
DIRECT = ["testunitready", "inquiry", "read10", "write10", "readcapacity10", "modesense6", "reportluns",
          "synchronizecache10", "readcapacity16", "preventallowmediumremoval", "read16", "writesame10"]

_STATE = {}


def setup(ctx):
    common.import_pyscsi()


# ---------------------------------------------------------------------------------------
def sense_strategy():
    def fixed(t):
        key, asc, ascq, deferred, valid, extra, noise, pad = t
        # 14..17 byte sense (ADDITIONAL SENSE LENGTH 6..9: ASCQ is the last or nearly last byte) one time in three
        b = R.sense_fixed(key, asc, ascq, deferred=deferred, valid=valid,
                          length=14 + extra % 4 if extra % 3 == 0 else 18 + extra)
        for i, x in enumerate(noise):
            pos = (3, 4, 5, 6, 8, 9, 10, 11, 14)[i % 9]
            if pos < len(b):
                b[pos] = x
        # the transport's sense buffer may be longer than the sense data the target sent
        return bytes(b) + bytes(pad)

    def desc(t):
        key, asc, ascq, deferred, descs = t
        body = b"".join(bytes([ty, len(d)]) + d for ty, d in descs)[:244]
        return bytes(R.sense_descriptor(key, asc, ascq, deferred=deferred, descriptors=body))

    byte = st.integers(0, 255)
    # buffers too short to carry key/ASC/ASCQ (autosense cut short), down to no sense at all
    short = st.one_of(st.just(b""), st.binary(max_size=7),
                      st.binary(min_size=1, max_size=13).map(lambda x: bytes([0x70 | (x[0] & 0x81)]) + x[1:]))
    # response codes outside 70h-73h (reserved / vendor specific 7Fh): the bytes are still the target's
    other = st.tuples(st.integers(0, 0x7F).filter(lambda x: not 0x70 <= x <= 0x73), st.booleans(),
                      st.binary(min_size=3, max_size=40)).map(lambda t: bytes([t[0] | (0x80 if t[1] else 0)]) + t[2])
    return st.one_of(
        short, other,
        st.tuples(st.integers(0, 15), byte, byte, st.booleans(), st.integers(0, 1), st.integers(0, 234),
                  st.binary(max_size=9), st.sampled_from([0, 0, 0, 4, 18])).map(fixed),
        st.tuples(st.integers(0, 15), byte, byte, st.booleans(),
                  st.lists(st.tuples(st.sampled_from([0, 1, 2, 3, 4, 5, 9, 0x0A, 0x80]), st.binary(min_size=2, max_size=14)),
                           max_size=4)).map(desc),
    )


def status_strategy():
    return st.one_of(st.just(0x00), st.just(0x00), st.just(0x00), st.just(0x02), st.just(0x02), st.just(0x02),
                     st.sampled_from(sorted(NAMED)), st.sampled_from(sorted(NAMED)), st.sampled_from(sorted(NAMED)),
                     st.integers(0, 255))


@st.composite
def history(draw):
    n = draw(st.integers(1, 12))
    steps = []
    for i in range(n):
        s = {"cmd": draw(st.sampled_from(DIRECT)), "status": draw(status_strategy()), "raw": draw(st.booleans())}
        if draw(st.integers(0, 3)) == 0:
            # a caller-built command of any fixed-length opcode (e.g. A1h = BLANK on MMC, ATA PASS-THROUGH(12) on SBC)
            s["cmd"] = "opcode:%d" % draw(st.one_of(st.sampled_from([0xA1, 0x85, 0x00, 0x12, 0xA0]),
                                                    st.integers(0, 0x5F), st.integers(0x80, 0xBF)))
        s["via"] = draw(st.sampled_from(["device", "facade_execute"]))
        if s["status"] == 0x02:
            s["sense"] = draw(sense_strategy())
        if i and draw(st.integers(0, 3)) == 0:
            s["reuse"] = True
        steps.append(s)
    # one history in four runs its last command inside a with block (of the facade or of the device): the
    # error must leave the block, not be swallowed by __exit__
    if draw(st.integers(0, 3)) == 0:
        steps[-1]["via"] = draw(st.sampled_from(["facade_with", "device_with"]))
    return {"transport": draw(st.sampled_from(["sgio", "iscsi"])), "steps": steps}


# ---------------------------------------------------------------------------------------
def sense_fields(sense):
    """positions per SPC-4 4.5: fixed 70h/71h key@2[3:0] asc@12 ascq@13; descriptor 72h/73h key@1[3:0] asc@2 ascq@3."""
    rc = sense[0] & 0x7F
    if rc in (0x70, 0x71):
        return sense[2] & 0x0F, sense[12], sense[13]
    return sense[1] & 0x0F, sense[2], sense[3]


def judge(outcome, exc, status, sense, raw, transport, dev, cmd):
    if status == 0x00:
        expect(outcome == "return", "mismatch:good_status_raised", error=repr(exc)[:200])
        return
    if status == 0x02:
        if outcome == "return":
            expect(raw, "mismatch:check_condition_looks_successful", transport=transport, sense=sense)
            got = cmd.raw_sense_data
            expect(got is not None and bytes(got) == bytes(sense), "mismatch:raw_sense_not_attached",
                   transport=transport, got=got, want=sense)
            return
        if len(sense) < 14 and ((sense[:1] or b"\0")[0] & 0x7F in (0x70, 0x71) or len(sense) < 4):
            return  # too short to carry key/ASC/ASCQ: any exception distinguishes it from success
        expect(type(exc).__name__ == "CheckCondition" and isinstance(exc, dev.CheckCondition),
               "mismatch:check_condition_wrong_error", got=type(exc).__name__, error=repr(exc)[:200])
        if raw and cmd.raw_sense_data is not None:
            expect(bytes(cmd.raw_sense_data) == bytes(sense), "mismatch:raw_sense_modified", got=cmd.raw_sense_data,
                   want=sense)
        if (sense[0] & 0x7F) not in (0x70, 0x71, 0x72, 0x73):
            return
        key, asc, ascq = sense_fields(sense)
        try:
            got = (exc.data["sense_key"], exc.asc, exc.ascq)
        except Exception as e:  # noqa
            raise Violation("mismatch:sense_not_reported", {"sense": sense.hex(), "error": repr(e)[:200]})
        expect(got == (key, asc, ascq), "mismatch:reported_sense_differs", got=got, want=(key, asc, ascq), sense=sense)
        if raw and cmd.raw_sense_data is not None:
            expect(bytes(cmd.raw_sense_data) == bytes(sense), "mismatch:raw_sense_modified", got=cmd.raw_sense_data,
                   want=sense)
        return
    expect(outcome == "raise", "mismatch:failed_status_looks_successful", status=status, transport=transport)
    if transport == "iscsi" and status in NAMED:
        expect(type(exc).__name__ == NAMED[status], "mismatch:status_error_name", status=status,
               got=type(exc).__name__, want=NAMED[status])


def build_direct(name, table="sbc"):
    cmd = cmds.BY_NAME[name]
    t = table if table in cmd.tables() else cmd.tables()[0]
    a = gen.minimal(cmd)
    if "blocksize" in a:
        a["blocksize"] = 512
    if "tl" in a and name.startswith(("read", "write")):
        a["tl"] = 1
        if "data" in a:
            a["data"] = bytes(512)
    if name.startswith("writesame"):
        a["nb"] = 1
        a["data"] = bytes(512)
    return cmd.build(cmd.opcode(t), a)


def check_history(case):
    transport = case["transport"]
    queue = []

    def handler(cdb, dout, din):
        return queue.pop(0) if queue else (0, None)

    transports.set_handler(handler)
    dev = transports.make_sgio(readwrite=True) if transport == "sgio" else transports.make_iscsi()
    nt = False
    seen_fail = False
    prev = None
    from pyscsi.pyscsi.scsi import SCSI

    facade = SCSI(None)
    facade.device = dev
    closed = False
    try:
        for step in case["steps"]:
            if step.get("reuse") and prev is not None:
                c = prev
            elif step["cmd"].startswith("opcode:"):
                from pyscsi.pyscsi.scsi_cdb_testunitready import TestUnitReady
                from pyscsi.pyscsi.scsi_opcode import OpCode

                c = TestUnitReady(OpCode("CALLER_BUILT", int(step["cmd"][7:]), {}))
            else:
                with lib("constructor"):
                    c = build_direct(step["cmd"])
            status, sense = step["status"], step.get("sense")
            queue[:] = [(status, sense)]
            try:
                if step.get("via") == "facade_with" and step is case["steps"][-1]:
                    closed = True
                    with facade as s_:
                        s_.execute(c, en_raw_sense=step["raw"])
                elif step.get("via") == "device_with" and step is case["steps"][-1]:
                    closed = True
                    with dev as d_:
                        d_.execute(c, en_raw_sense=step["raw"])
                elif step.get("via") == "facade_execute":
                    facade.execute(c, en_raw_sense=step["raw"])
                else:
                    dev.execute(c, en_raw_sense=step["raw"])
                outcome, exc = "return", None
            except Exception as e:  # noqa
                outcome, exc = "raise", e
            expect(not queue, "mismatch:command_not_sent")
            judge(outcome, exc, status, sense, step["raw"], transport, dev, c)
            if status != 0:
                seen_fail = True
            elif seen_fail:
                nt = True
            if status == 2 and (len(sense) < 14 or (sense[0] & 0x7F) != 0x70):
                nt = True
            prev = c
    finally:
        if not closed:
            dev.close()
        transports.set_handler(None)
    cl = [transport]
    if closed:
        cl.append("with_block")
    if any(s.get("reuse") for s in case["steps"]):
        cl.append("reexecute")
    if any(s.get("via") == "facade_execute" for s in case["steps"]):
        cl.append("facade_execute")
    if any(s["cmd"].startswith("opcode:") for s in case["steps"]):
        cl.append("caller_built_opcode")
    return nt, cl


# ---------------------------------------------------------------------------------------
# sweep: every status byte x transport x raw x {direct, every facade method}
# ---------------------------------------------------------------------------------------
def facade_call(s, cmd):
    a = gen.minimal(cmd)
    if "blocksize" in cmd.pos:
        a["tl"] = 1 if "tl" in a else a.get("tl")
        if "data" in a:
            a["data"] = bytes(512)
    if cmd.name.startswith("writesame"):
        a["nb"] = 1
        a["data"] = bytes(512)
    if cmd.name.startswith("atapassthrough"):
        a.update(protocal=4, t_length=0, byte_block=0, t_dir=1, t_type=0, off_line=0, fetures=0, count=0, lba=0,
                 command=0xEC)
    return cmd.call(s, a)


def check_sweep(case):
    from pyscsi.pyscsi.scsi import SCSI
    import pyscsi.pyscsi.scsi_enum_command as ec

    status, transport, raw, method = case
    sense = bytes(R.sense_fixed(0x05, 0x24, 0x00)) if status == 2 else None
    queue = []

    def handler(cdb, dout, din):
        return queue.pop(0) if queue else (0, None)

    transports.set_handler(handler)
    dev = transports.make_sgio(readwrite=True) if transport == "sgio" else transports.make_iscsi()
    try:
        if method == "direct":
            c = build_direct("read10")
            queue[:] = [(status, sense)]
            try:
                dev.execute(c, en_raw_sense=raw)
                outcome, exc = "return", None
            except Exception as e:  # noqa
                outcome, exc = "raise", e
            judge(outcome, exc, status, sense, raw, transport, dev, c)
            return status != 0, ("sweep_direct",)
        cmd = cmds.BY_NAME[method]
        with lib("attach"):
            s = SCSI(dev, 512)
        dev.opcodes = getattr(ec, cmd.tables()[0])
        entered, raised = [], []
        orig = dev.execute

        def spy(c, en_raw_sense=False):
            entered.append(c)
            try:
                return orig(c, en_raw_sense=en_raw_sense)
            except BaseException as e:  # noqa
                raised.append(e)
                raise

        dev.execute = spy
        queue[:] = [(status, sense)]
        try:
            c = facade_call(s, cmd)
            outcome, exc = "return", None
        except Exception as e:  # noqa
            outcome, exc = "raise", e
            c = entered[-1] if entered else None
        expect(len(entered) == 1, "mismatch:device_execute_count", n=len(entered), method=method)
        uses_raw = cmd.name.startswith("atapassthrough")
        if status == 0:
            # zeroed data-in is not a conformant response: decode errors are C13's business
            if outcome == "raise" and not raised:
                return False, ("sweep_facade_decode_error_ignored",)
        else:
            if outcome == "raise":
                expect(raised and exc is raised[-1], "mismatch:facade_did_not_pass_on_the_device_error",
                       method=method, got=repr(exc)[:200], device_raised=repr(raised[-1:])[:200])
        judge(outcome, exc, status, sense, uses_raw, transport, dev, c)
    finally:
        try:
            del dev.execute
        except AttributeError:
            pass
        dev.close()
        transports.set_handler(None)
    return status != 0, ("sweep_facade",)


def sweep_cases(ctx):
    methods = ["direct"] + [c.name for c in cmds.COMMANDS if c.facade and c.name != "persistentreservein"]
    statuses = range(256) if ctx.thorough else sorted(set([0, 2, 4, 8, 0x18, 0x28, 0x30, 0x40, 0x10, 0x14, 0x22, 1, 3, 0xFF]))
    for m in methods:
        for stt in (range(256) if m == "direct" else statuses):
            for tr in ("sgio", "iscsi"):
                for raw in ((False, True) if m == "direct" else (False,)):
                    yield (stt, tr, raw, m)


def run(ctx):
    common.search(ctx, "history", history(), check_history, ctx.n(1200, 40000))
    for i, case in enumerate(sweep_cases(ctx)):
        if ctx.mine(i):
            common.run_one(ctx, "sweep:" + case[3], case, check_sweep)
    ctx.exhaustive_parts.append("status sweep: %s status bytes x 2 transports x raw-sense x direct; named+selected statuses x 2 transports x every facade method" % ("256" if True else ""))


def replay(ctx, subject, case):
    if subject == "history":
        check_history(case)
    else:
        check_sweep(tuple(case))


def floors(tier, classes, subjects, evaluations, distinct):
    out = []
    for c in ("sgio", "iscsi", "reexecute", "sweep_direct", "sweep_facade", "facade_execute", "caller_built_opcode"):
        if not classes.get(c):
            out.append("class %s never generated" % c)
    return out
