"""C08 - sense data is always decodable and printable, with the right key/ASC/ASCQ.

Enumerated completely in thorough (4 formats x valid x 16 keys x 65536 ASC/ASCQ pairs); generated
on top: lengths 1..252, arbitrary other bytes, descriptor lists, print_data on/off."""
import contextlib
import io

from hypothesis import strategies as st

from pbt import common
from pbt.common import Violation, expect
from pbt.stdspec import sense as SS

ID = "C08"
LEVEL = "exploration"
EXHAUSTIVE = False
SHARDS = {"quick": 8, "thorough": 16}
TECHNIQUE = "exhaustive enumeration of response code x sense key x ASC/ASCQ plus Hypothesis-generated buffers (truncation, descriptors, noise); oracle: no exception from construct/str/repr/print + field positions per SPC + T10 texts from an independent list"
RULE = (
    "enumerated: (response code 70h-73h, valid bit, sense key, ASC, ASCQ) canonical buffers - quick: all "
    "65536 pairs for each response code at one key plus 16 keys x 4 codes x 2048 sampled pairs; thorough: the "
    "full 4 x 2 x 16 x 65536 product; other response-code values sampled. Generated: buffers of length 1..252 "
    "(truncation anywhere), arbitrary other bytes, well- and ill-formed descriptor lists, print_data on/off. "
    "Non-trivial = ASC/ASCQ not in the library's table, or a deferred/descriptor format, or a truncated buffer; "
    "enumerated cases are distinct by construction, generated ones by canonical JSON"
)
ASSUMPTIONS = [
    "stdspec/sense.py: field positions per SPC-4 4.5; ~130 ASC/ASCQ texts compared independently; every other code the library lists is only checked for showing its own text (self-consistency)",
    "ASC >= 80h and ASCQ >= 80h are vendor specific: any text is accepted",
    "the text comparison ignores case, whitespace and punctuation",
]


def setup(ctx):
    common.import_pyscsi()


def classes_under_test():
    from pyscsi.pyscsi.scsi_sense import SCSICheckCondition
    from pyscsi.pyscsi.scsi_device import SCSIDevice
    from pyscsi.pyiscsi.iscsi_device import ISCSIDevice

    return [SCSICheckCondition, SCSIDevice.CheckCondition, ISCSIDevice.CheckCondition]


def lib_table():
    import pyscsi.pyscsi.scsi_sense as m

    return m.sense_ascq_dict


def construct(buf, print_data=False, which=0, src=None):
    cls = classes_under_test()[which]
    try:
        src = bytearray(buf) if src is None else src
        return cls(src, print_data) if print_data else cls(src)
    except Exception as e:  # noqa
        raise Violation("exc:%s@construct" % type(e).__name__, {"buf": bytes(buf).hex(), "error": repr(e)[:200]})


def check_buffer(buf, print_data=False, which=0, cheap=False):
    return verify(construct(buf, print_data, which), buf, cheap)


def verify(exc, buf, cheap=False):
    out = io.StringIO()
    try:
        with contextlib.redirect_stdout(out):
            text = str(exc)
            if not cheap:
                repr(exc)
                exc.print_data()
    except Exception as e:  # noqa
        raise Violation("exc:%s@str_or_print" % type(e).__name__, {"buf": bytes(buf).hex(), "error": repr(e)[:200]})
    expect(isinstance(text, str) and len(text) > 0, "mismatch:empty_text", buf=bytes(buf).hex())
    rc = buf[0] & 0x7F
    try:
        expect(exc.response_code == rc and bool(exc.valid) == bool(buf[0] & 0x80), "mismatch:response_code_or_valid",
               buf=bytes(buf).hex())
    except AttributeError as e:
        raise Violation("mismatch:attribute_missing", {"error": repr(e), "buf": bytes(buf).hex()})
    pos = SS.positions(rc)
    nontrivial = rc != 0x70
    if pos is None:
        return True
    kb, ab, qb = pos
    if len(buf) <= max(kb, ab, qb):
        return True  # truncated before the fields: only "no exception" is demanded
    key, asc, ascq = buf[kb] & 0x0F, buf[ab], buf[qb]
    try:
        got = (exc.data["sense_key"], exc.asc, exc.ascq)
    except Exception as e:  # noqa
        raise Violation("mismatch:fields_not_reported", {"buf": bytes(buf).hex(), "error": repr(e)[:200]})
    expect(got == (key, asc, ascq), "mismatch:key_asc_ascq", got=got, want=(key, asc, ascq), buf=bytes(buf).hex())
    ntext = SS.norm(text)
    if key in SS.SENSE_KEYS:
        expect(SS.norm(SS.SENSE_KEYS[key]) in ntext, "mismatch:sense_key_name", key=key, text=text)
    code = (asc << 8) | ascq
    if code in SS.ASC:
        # assigned by T10 (this includes 5Dh/FFh, which lies in the otherwise vendor-specific ASCQ range)
        expect(SS.norm(SS.ASC[code]) in ntext, "mismatch:t10_text", code="%04X" % code, text=text, want=SS.ASC[code])
    elif asc < 0x80 and ascq < 0x80:
        if code in lib_table():
            expect(SS.norm(lib_table()[code]) in ntext, "mismatch:own_text_not_shown", code="%04X" % code, text=text)
        else:
            nontrivial = True
    return nontrivial


def check_sequence(cases):
    """several CheckCondition objects alive at once: each must keep reporting its own buffer."""
    srcs = [bytearray(c["buf"]) for c in cases]
    excs = [construct(c["buf"], c["print"], c["which"], src=b) for c, b in zip(cases, srcs)]
    nt = False
    for e, c in zip(excs, cases):
        nt = verify(e, c["buf"]) or nt
    for e, c in zip(reversed(excs), reversed(cases)):
        verify(e, c["buf"], cheap=True)
    # the owner of a sense buffer reuses it for the next command: an error object created earlier keeps
    # reporting the sense it was created from
    for b, c in zip(srcs, cases[1:] + cases[:1]):
        b[:] = (c["buf"] + bytes(len(b)))[:len(b)]
    for e, c in zip(excs, cases):
        try:
            verify(e, c["buf"], cheap=True)
        except Violation as v:
            raise Violation(v.kind + ":after_buffer_reuse", v.detail)
    return len(cases) >= 2, ("sequence",)


def canonical(rc, valid, key, asc, ascq):
    if rc in (0x70, 0x71):
        b = bytearray(18)
        b[0] = (0x80 if valid else 0) | rc
        b[2] = key
        b[7] = 10
        b[12], b[13] = asc, ascq
    else:
        b = bytearray(8)
        b[0] = (0x80 if valid else 0) | rc
        b[1] = key
        b[2], b[3] = asc, ascq
    return b


def enumerate_block(ctx, subject, combos, pairs):
    """combos: list of (rc, valid, key); pairs: iterable of (asc, ascq). Distinct by construction."""
    n = nt = 0
    sample = None
    for rc, valid, key in combos:
        for asc, ascq in pairs:
            buf = canonical(rc, valid, key, asc, ascq)
            try:
                r = check_buffer(buf, cheap=True)
            except Violation as v:
                case = {"buf": bytes(buf), "print": False, "which": 0}
                ctx.evaluations += 1
                if not ctx.handle(subject, case, v):
                    ctx.violation(subject, case, v)
                continue
            n += 1
            if r:
                nt += 1
                if sample is None:
                    sample = {"buf": bytes(buf)}
    ctx.record_bulk(subject, n, nt, sample)


@st.composite
def gen_buffer(draw):
    rc = draw(st.one_of(st.sampled_from([0x70, 0x71, 0x72, 0x73]), st.sampled_from([0x70, 0x71, 0x72, 0x73]),
                        st.integers(0, 0x7F)))
    n = draw(st.integers(1, 252))
    body = bytearray(draw(st.binary(min_size=n, max_size=n)))
    body[0] = rc | (0x80 if draw(st.booleans()) else 0)
    if rc in (0x72, 0x73) and n > 8 and draw(st.booleans()):
        # descriptor list: well-formed or ill-formed descriptors
        descs = bytearray()
        for _ in range(draw(st.integers(0, 6))):
            ty = draw(st.sampled_from([0, 1, 2, 3, 4, 5, 6, 7, 8, 9, 0x0A, 0x0B, 0x0C, 0x80, 0xFF]))
            ln = draw(st.integers(0, 40))
            claim = draw(st.one_of(st.just(ln), st.integers(0, 255)))
            descs += bytes([ty, claim]) + draw(st.binary(min_size=ln, max_size=ln))
        body = body[:8] + descs
        body = body[:252]
        body[7] = draw(st.one_of(st.just(max(0, len(body) - 8)), st.integers(0, 255)))
    return {"buf": bytes(body), "print": draw(st.booleans()), "which": draw(st.integers(0, 2))}


def check_generated(case):
    buf = case["buf"]
    r = check_buffer(buf, case["print"], case["which"])
    rc = buf[0] & 0x7F
    pos = SS.positions(rc)
    trunc = pos is not None and len(buf) <= max(pos)
    cl = ["rc_%02X" % rc if pos else "rc_other"]
    if trunc:
        cl.append("truncated")
    if case["print"]:
        cl.append("print_data")
    return (r or trunc), cl


def run(ctx):
    keys = list(range(16))
    rcs = [0x70, 0x71, 0x72, 0x73]
    if ctx.thorough:
        combos = [(rc, v, k) for rc in rcs for v in (0, 1) for k in keys]
        mine = [c for i, c in enumerate(combos) if ctx.mine(i)]
        enumerate_block(ctx, "enumerated", mine, [(a, q) for a in range(256) for q in range(256)])
        ctx.exhaustive_parts.append("4 response codes x valid x 16 sense keys x 65536 ASC/ASCQ pairs")
    else:
        full = [(rc, 0, 5) for rc in rcs]
        mine = [c for i, c in enumerate(full) if ctx.mine(i)]
        enumerate_block(ctx, "enumerated", mine, [(a, q) for a in range(256) for q in range(256)])
        combos = [(rc, v, k) for rc in rcs for v in (0, 1) for k in keys]
        mine = [c for i, c in enumerate(combos) if ctx.mine(i + 1)]
        # a fixed, spread sample of pairs: every ASC with 8 qualifiers
        pairs = [(a, (a * 7 + j * 37) & 0xFF) for a in range(256) for j in range(8)]
        enumerate_block(ctx, "enumerated", mine, pairs)
        ctx.exhaustive_parts.append("all 65536 ASC/ASCQ pairs for each of 70h-73h at sense key 5; all 4 x 2 x 16 combinations x 2048 spread pairs")
    # other response codes
    others = [rc for rc in range(0x80) if rc not in rcs]
    for i, rc in enumerate(others):
        if ctx.mine(i):
            for n in (1, 8, 18, 32):
                common.run_one(ctx, "other_response_codes", {"buf": bytes([rc]) + bytes(n - 1), "print": False, "which": 0},
                               check_generated)
    common.search(ctx, "generated", gen_buffer(), check_generated, ctx.n(6000, 200000))
    common.search(ctx, "alive_together", st.lists(gen_buffer(), min_size=2, max_size=4), check_sequence, ctx.n(1500, 40000))


def replay(ctx, subject, case):
    if subject == "alive_together":
        check_sequence(case)
    else:
        check_generated(case)


def floors(tier, classes, subjects, evaluations, distinct):
    return ["class %s never generated" % c for c in ("sequence", "truncated", "print_data", "rc_71", "rc_73", "rc_other")
            if not classes.get(c)]
