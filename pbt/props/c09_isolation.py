"""C09 - command objects are isolated from one another, in any order or interleaving.

Isolation metamorphic relation: an operation inside a history / thread schedule must give the
result the same operation gives alone.  Histories are generated operation lists over a pool of
live commands; schedules are generated (programs, preemption points) executed by the
controlled scheduler of pbt/sched.py (source-line granularity, harness-owned)."""
import copy
import gc

from hypothesis import strategies as st

from pbt import cmds, common, devs, gen, paramgen, sched
from pbt.common import Violation, expect, lib

ID = "C09"
LEVEL = "exploration"
EXHAUSTIVE = False
SHARDS = {"quick": 8, "thorough": 16}
TECHNIQUE = "isolation metamorphic relation over Hypothesis histories (construct/decode/encode/rebuild/drop/repeat on a pool of live commands) and over harness-owned thread schedules (settrace line-event preemption, <= 4 preemptions random, all single/double preemptions enumerated for fixed program pairs in thorough)"
RULE = (
    "history case = <= 30 operations over a pool of live commands of any of the 42 classes (construct with "
    "generated arguments; decode via class and instance; encode via class; rebuild; drop + gc; repeated "
    "marshalling with the same argument objects; facade extendedcopy with defaults after a call with lists). "
    "schedule case = 2..3 threads each running 2..5 operations on their own commands + <= 3 (quick) / 4 "
    "(thorough) preemption points given as line-event indices. Non-trivial: history with >= 2 different classes "
    "constructed between building and decoding one command; schedule with >= 1 preemption that landed inside a "
    "constructor / encoder (measured from the trace); distinct = distinct canonical JSON"
)
ASSUMPTIONS = [
    "CPython; preemption at source-line granularity inside pyscsi code; threads do not share command objects",
    "the reference observation is the same operation on an equal, freshly built command with nothing in between",
    "the library may normalise caller dictionaries in place; only the effect on results is judged",
]

CHEAP = [c.name for c in cmds.COMMANDS if not c.name.startswith(("extendedcopy", "modeselect"))]


def setup(ctx):
    common.import_pyscsi()


# ---------------------------------------------------------------------------------------
def small_args(cmd):
    """strategy of cheap argument dicts (buffers small)."""
    def shrink(a):
        a = gen.materialize(a)
        for k in list(a):
            ata_sizes = cmd.name.startswith("atapassthrough") and k in ("fetures", "count", "extra_tl") and a.get("t_length")
            if k in cmd.size_args or k in ("tl",) or ata_sizes:
                if isinstance(a[k], int):
                    a[k] %= 9
        if "data" in a and "blocksize" in a and a.get("data") is not None:
            n = a["blocksize"] * (1 if cmd.name.startswith("writesame") else a.get("tl", 0))
            a["data"] = bytes(n)
        if cmd.name.startswith("atapassthrough"):
            a["data"] = None
        if cmd.name == "readcapacity10":
            a["alloclen"] = 8
        return a
    return gen.args(cmd).map(shrink)


def new_op():
    return st.sampled_from(CHEAP).flatmap(
        lambda n: st.tuples(st.just("new"), st.just(n), st.sampled_from(cmds.BY_NAME[n].tables()), small_args(cmds.BY_NAME[n])))


@st.composite
def focused_history(draw):
    """histories whose commands come from one or two classes only: a command meets siblings of its own
    class built with other arguments (other flag combinations, other widths), not just strangers."""
    names = draw(st.lists(st.sampled_from(CHEAP), min_size=1, max_size=2, unique=True))
    idx = st.integers(0, 7)
    new = st.sampled_from(names).flatmap(
        lambda n: st.tuples(st.just("new"), st.just(n), st.sampled_from(cmds.BY_NAME[n].tables()), small_args(cmds.BY_NAME[n])))
    op = st.one_of(new, new, new, st.tuples(st.just("decode"), idx), st.tuples(st.just("encode"), idx),
                   st.tuples(st.just("encode_partial"), idx),
                   st.tuples(st.just("rebuild"), idx), st.tuples(st.just("drop"), idx))
    return draw(st.lists(op, min_size=3, max_size=24))


def op_strategy():
    idx = st.integers(0, 7)
    return st.one_of(new_op(), new_op(), st.tuples(st.just("decode"), idx), st.tuples(st.just("decode"), idx),
                     st.tuples(st.just("encode"), idx), st.tuples(st.just("rebuild"), idx), st.tuples(st.just("drop"), idx),
                     st.tuples(st.just("encode_partial"), idx),
                     st.tuples(st.just("new_shared_buffer"), idx, st.sampled_from(["write10", "write12", "write16"]),
                               st.integers(0, 6), st.booleans()),
                     st.tuples(st.just("marshall_twice"), st.just("mode6"), paramgen.mode_data(False)),
                     st.tuples(st.just("marshall_twice"), st.just("mode10"), paramgen.mode_data(True)),
                     st.tuples(st.just("marshall_twice"), st.just("prout"), paramgen.prout_args()),
                     st.tuples(st.just("marshall_twice"), st.just("xcopy4"), paramgen.xcopy_args(False, max_cscd=2, max_seg=3)),
                     st.tuples(st.just("marshall_twice"), st.just("xcopy5"), paramgen.xcopy_args(True, max_cscd=2, max_seg=3)))


def build(name, table, a):
    cmd = cmds.BY_NAME[name]
    return cmd.build(cmd.opcode(table), copy.deepcopy(a))


def own_decode(cls, cdb):
    """decode with the class's own layout through an independent big-integer codec (not the
    library's decode_bits): immune to any cache or shared state inside the library."""
    out = {}
    total = 8 * len(cdb)
    x = int.from_bytes(bytes(cdb), "big")
    for k, (mask, off) in cls._cdb_bits.items():
        n = 1
        m = mask
        while m > 0xFF:
            m >>= 8
            n += 1
        shift = 0
        while not (mask >> shift) & 1:
            shift += 1
        out[k] = ((x >> (total - 8 * (off + n))) & mask) >> shift
    return out


def own_encode(cls, fields, length):
    x = 0
    total = 8 * length
    for k, v in fields.items():
        mask, off = cls._cdb_bits[k]
        n = 1
        m = mask
        while m > 0xFF:
            m >>= 8
            n += 1
        shift = 0
        while not (mask >> shift) & 1:
            shift += 1
        x ^= (v << shift) << (total - 8 * (off + n))
    return x.to_bytes(length, "big")


def reference(name, table, a):
    """the observations of a freshly built equal command with nothing in between; decoding is
    done by the independent codec, and the CDB is additionally judged against the standard."""
    with lib("reference constructor"):
        c = build(name, table, a)
        cdb = bytes(c.cdb)
    from pbt.props import c01_cdb_wire as c01

    cmd = cmds.BY_NAME[name]
    c01.judge(cmd, table, cdb, a)
    dec = own_decode(type(c), cdb)
    enc = own_encode(type(c), dec, len(cdb))
    with lib("reference constructor"):
        pass
    return {"cdb": cdb, "decode": dec, "encode": enc, "datain": bytes(c.datain) if c.datain is not None else None,
            "dataout": bytes(c.dataout) if c.dataout is not None else None}


class Pool(object):
    def __init__(self):
        self.live = []  # dicts: cmd, ref, cls names constructed since

    def check_untouched(self):
        for e in self.live:
            c, ref = e["cmd"], e["ref"]
            expect(bytes(c.cdb) == ref["cdb"], "mismatch:cdb_of_untouched_command_changed", cls=type(c).__name__,
                   got=bytes(c.cdb), want=ref["cdb"])
            expect((bytes(c.datain) if c.datain is not None else None) == ref["datain"], "mismatch:datain_changed", cls=type(c).__name__)
            expect((bytes(c.dataout) if c.dataout is not None else None) == ref["dataout"], "mismatch:dataout_changed", cls=type(c).__name__)

    def apply(self, op):
        k = op[0]
        nt = False
        if k == "new":
            _, name, table, a = op
            ref = reference(name, table, a)
            with lib("constructor"):
                c = build(name, table, a)
            expect(bytes(c.cdb) == ref["cdb"], "mismatch:constructor_built_a_different_cdb", cls=type(c).__name__,
                   got=bytes(c.cdb), want=ref["cdb"])
            for e in self.live:
                e["since"].add(type(c).__name__)
            self.live.append({"cmd": c, "ref": ref, "since": set()})
            if len(self.live) > 8:
                self.live.pop(0)
        elif k == "marshall_twice":
            marshall_twice(op[1], op[2])
        elif k == "new_shared_buffer":
            # a second write command built from the *same caller buffer object* as an earlier one
            # (callers reuse buffers); building it must not change the first command's data-out
            _, i, name, tl, as_ba = op
            writes = [e for e in self.live if type(e["cmd"]).__name__.startswith("Write") and not type(e["cmd"]).__name__.startswith("WriteSame")]
            if writes:
                e0 = writes[i % len(writes)]
                buf = e0["cmd"].dataout
                cmd = cmds.BY_NAME[name]
                with lib("constructor (shared caller buffer)"):
                    c2 = cmd.cls(cmd.opcode("sbc"), 512, 0, tl, buf)
                self.live.append({"cmd": c2, "ref": {"cdb": bytes(c2.cdb), "decode": own_decode(type(c2), c2.cdb),
                                                     "encode": own_encode(type(c2), own_decode(type(c2), c2.cdb), len(c2.cdb)),
                                                     "datain": bytes(c2.datain), "dataout": bytes(e0["ref"]["dataout"])},
                                  "since": set()})
                if len(self.live) > 8:
                    self.live.pop(0)
        elif self.live:
            e = self.live[op[1] % len(self.live)]
            c, ref = e["cmd"], e["ref"]
            if k == "decode":
                with lib("unmarshall_cdb"):
                    d1 = type(c).unmarshall_cdb(c.cdb)
                    d2 = c.unmarshall_cdb(c.cdb)
                expect(d1 == ref["decode"], "mismatch:class_decode_depends_on_history", cls=type(c).__name__,
                       since=sorted(e["since"]), got=d1, want=ref["decode"])
                expect(d2 == ref["decode"], "mismatch:instance_decode_depends_on_history", cls=type(c).__name__,
                       since=sorted(e["since"]), got=d2, want=ref["decode"])
                nt = len(e["since"] - {type(c).__name__}) >= 2
            elif k == "encode":
                with lib("marshall_cdb"):
                    b = type(c).marshall_cdb(dict(ref["decode"]))
                expect(bytes(b) == ref["encode"], "mismatch:class_encode_depends_on_history", cls=type(c).__name__,
                       since=sorted(e["since"]), got=bytes(b), want=ref["encode"])
                nt = len(e["since"] - {type(c).__name__}) >= 2
            elif k == "encode_partial":
                # the class-level encoder used for a partial assignment (no opcode key): whatever it returns, it
                # leaves no trace in the class or in any command (seen by the operations that follow)
                part = {kk: vv for kk, vv in ref["decode"].items() if kk != "opcode"}
                with lib("marshall_cdb (partial assignment)"):
                    type(c).marshall_cdb(part)
            elif k == "rebuild":
                with lib("build_cdb"):
                    b = c.build_cdb(**ref["decode"])
                expect(bytes(b) == ref["encode"], "mismatch:build_cdb_depends_on_history", cls=type(c).__name__,
                       since=sorted(e["since"]), got=bytes(b), want=ref["encode"])
            elif k == "drop":
                self.live.remove(e)
                del c, e
                gc.collect()
        self.check_untouched()
        return nt


def marshall_twice(kind, value):
    """same argument objects twice / reused for another command vs fresh equal objects."""
    def draw(_):
        return copy.deepcopy(value)
    if kind in ("mode6", "mode10"):
        ten = kind == "mode10"
        cls = cmds.BY_NAME["modesense10" if ten else "modesense6"].cls
        d = paramgen.strip_notes(draw(None))
        fresh = copy.deepcopy(d)
        with lib("marshall_datain"):
            a = bytes(cls.marshall_datain(d))
            b = bytes(cls.marshall_datain(d))
            c = bytes(cls.marshall_datain(fresh))
        expect(a == b == c, "mismatch:repeated_marshalling_differs", what=kind)
        # read-modify-write: the MODE SENSE command's decoded result is handed to a MODE SELECT command;
        # creating that other command leaves the first command's result what a decode of its data-in gives
        import pyscsi.pyscsi.scsi_enum_command as ec

        sel = cmds.BY_NAME["modeselect10" if ten else "modeselect6"].cls
        with lib("ModeSense / ModeSelect"):
            sense_cmd = cls(ec.spc.MODE_SENSE_10 if ten else ec.spc.MODE_SENSE_6, page_code=0x3F, alloclen=max(len(a), 8))
            sense_cmd.datain[:len(a)] = a
            sense_cmd.unmarshall()
            before = copy.deepcopy(sense_cmd.result)
            sel(ec.spc.MODE_SELECT_10 if ten else ec.spc.MODE_SELECT_6, sense_cmd.result)
            again = cls.unmarshall_datain(sense_cmd.datain)
        expect(sense_cmd.result == before and sense_cmd.result == again, "mismatch:creating_another_command_changed_a_result",
               what=kind, before=before, after=sense_cmd.result)
    elif kind == "prout":
        cmd = cmds.BY_NAME["persistentreserveout"]
        arg = draw(None)
        kw = paramgen.strip_notes(arg["kw"])
        fresh = copy.deepcopy(kw)
        op = cmd.opcode("spc")
        with lib("PersistentReserveOut"):
            a = bytes(cmd.cls(op, arg["service_action"], **kw).dataout)
            b = bytes(cmd.cls(op, arg["service_action"], **kw).dataout)
            c = bytes(cmd.cls(op, arg["service_action"], **fresh).dataout)
        expect(a == b == c, "mismatch:repeated_marshalling_differs", what=kind)
    else:
        spc5 = kind == "xcopy5"
        cmd = cmds.BY_NAME["extendedcopy5" if spc5 else "extendedcopy4"]
        raw = draw(None)
        arg = paramgen.strip_notes(raw)
        fresh = copy.deepcopy(arg)
        op = cmd.opcode("spc")
        # a command built right after one that differs from it in a single descriptor field: its parameter
        # list is its own (judged against the independent builder of C05)
        from pbt.props import c05_paramlists as c05
        from pbt.stdspec import paramlists as P_

        with lib("ExtendedCopy"):
            cmd.cls(op, **copy.deepcopy(arg))
        for site, b in c05.twins(raw, limit=2):
            with lib("ExtendedCopy (near twin)"):
                got = bytes(cmd.cls(op, **paramgen.strip_notes(b)).dataout)
            expect(got == bytes(P_.xcopy(b, spc5)), "mismatch:command_built_after_a_near_twin_carries_foreign_bytes",
                   changed=str(site[-1]))
        with lib("ExtendedCopy"):
            a = bytes(cmd.cls(op, **arg).dataout)
            b = bytes(cmd.cls(op, **arg).dataout)  # same list/dict objects again
            c = bytes(cmd.cls(op, **fresh).dataout)
            s, dev = devs.attach("spc")
            getattr(s, cmd.facade)(**arg)
            getattr(s, cmd.facade)()  # defaults after a call that passed lists
            d0 = dev.calls[-1]["dataout"]
            d1 = bytes(cmd.cls(op).dataout)
        expect(a == b == c, "mismatch:repeated_marshalling_differs", what=kind)
        expect(d0 == d1, "mismatch:facade_defaults_polluted_by_earlier_call", what=kind)


def check_history(ops):
    pool = Pool()
    nt = False
    for op in ops:
        nt = pool.apply(op) or nt
    return nt, sorted({op[0] for op in ops})


# ---------------------------------------------------------------------------------------
# thread schedules
# ---------------------------------------------------------------------------------------
def compose_op():
    """commands that compose a parameter list (EXTENDED COPY, PR OUT, MODE SELECT): data-out is observed"""
    return st.one_of(
        st.tuples(st.just("compose"), st.just("xcopy4"), paramgen.xcopy_args(False, max_cscd=2, max_seg=2)),
        st.tuples(st.just("compose"), st.just("xcopy5"), paramgen.xcopy_args(True, max_cscd=2, max_seg=2)),
        st.tuples(st.just("compose"), st.just("prout"), paramgen.prout_args()),
        st.tuples(st.just("compose"), st.just("mode6"), paramgen.mode_data(False, max_pages=2)),
        st.tuples(st.just("compose"), st.just("mode10"), paramgen.mode_data(True, max_pages=2)))


def thread_program():
    return st.lists(st.one_of(new_op(), new_op(), compose_op(), st.tuples(st.just("decode"), st.integers(0, 3)),
                              st.tuples(st.just("encode"), st.integers(0, 3))), min_size=2, max_size=5)


def compose(kind, value):
    value = paramgen.strip_notes(copy.deepcopy(value))
    if kind in ("xcopy4", "xcopy5"):
        cmd = cmds.BY_NAME["extendedcopy5" if kind == "xcopy5" else "extendedcopy4"]
        c = cmd.cls(cmd.opcode("spc"), **value)
    elif kind == "prout":
        cmd = cmds.BY_NAME["persistentreserveout"]
        extra = {k: value[k] for k in ("scope", "pr_type") if k in value}
        c = cmd.cls(cmd.opcode("spc"), value["service_action"], **extra, **value["kw"])
    else:
        cmd = cmds.BY_NAME["modeselect10" if kind == "mode10" else "modeselect6"]
        c = cmd.cls(cmd.opcode("spc"), value)
    return ("compose", kind, bytes(c.cdb), bytes(c.dataout))


def schedule_case(max_pre):
    return st.fixed_dictionaries({
        "programs": st.lists(thread_program(), min_size=2, max_size=3),
        "schedule": st.lists(st.tuples(st.integers(1, 700), st.integers(0, 2)), min_size=1, max_size=max_pre),
    })


def run_program(ops):
    """observations of one thread's program (no oracle inside: compared afterwards)."""
    live, obs = [], []
    for op in ops:
        if op[0] == "compose":
            obs.append(compose(op[1], op[2]))
        elif op[0] == "new":
            c = build(op[1], op[2], op[3])
            live.append(c)
            obs.append(("new", type(c).__name__, bytes(c.cdb), len(c.datain) if c.datain is not None else None))
        elif live:
            c = live[op[1] % len(live)]
            if op[0] == "decode":
                obs.append(("decode", type(c).__name__, type(c).unmarshall_cdb(c.cdb)))
            else:
                d = type(c).unmarshall_cdb(c.cdb)
                obs.append(("encode", type(c).__name__, bytes(type(c).marshall_cdb(d)), bytes(c.cdb)))
    return obs


def expected_program(ops):
    """what the program observes alone (each operation judged against a fresh equal command)."""
    live, obs = [], []
    for op in ops:
        if op[0] == "compose":
            with lib("reference composer"):
                obs.append(compose(op[1], op[2]))  # alone, before any thread runs
        elif op[0] == "new":
            ref = reference(op[1], op[2], op[3])
            live.append((op, ref))
            c = build(op[1], op[2], op[3])
            obs.append(("new", type(c).__name__, ref["cdb"], len(c.datain) if c.datain is not None else None))
        elif live:
            o, ref = live[op[1] % len(live)]
            clsname = cmds.BY_NAME[o[1]].clsname
            if op[0] == "decode":
                obs.append(("decode", clsname, ref["decode"]))
            else:
                obs.append(("encode", clsname, ref["encode"], ref["cdb"]))
    return obs


COMPOSER_MODULES = ["scsi_cdb_inquiry", "scsi_cdb_persistentreservein", "scsi_cdb_persistentreserveout",
                    "scsi_cdb_extended_copy_spc4", "scsi_cdb_extended_copy_spc5", "scsi_cdb_modesense6", "scsi_cdb_modesense10"]


def fresh_composers():
    """Re-execute the composer modules so that their classes are in the state of a freshly started program (anything
    a class or module builds lazily on first use is gone).  cmds.Cmd.cls resolves the class through the module on
    every access, so the threads that run next get the new classes: their first use happens under the schedule."""
    import importlib

    for m in COMPOSER_MODULES:
        importlib.reload(importlib.import_module("pyscsi.pyscsi." + m))


def check_schedule(case):
    programs = [[tuple(o) for o in p] for p in case["programs"]]
    want = [expected_program(p) for p in programs]
    if case.get("fresh"):
        fresh_composers()
    s = sched.Scheduler([(lambda p=p: run_program(p)) for p in programs], [tuple(x) for x in case["schedule"]])
    got, errors = s.run()
    if s.lock_broken:
        raise common.HarnessError("scheduler dead-locked")
    inside = any(sw[3] for sw in s.switches)
    for i, (g, w, e) in enumerate(zip(got, want, errors)):
        if e is not None:
            raise Violation("exc:%s@thread" % type(e).__name__, {"thread": i, "error": repr(e)[:200], "switches": s.switches[:6]})
        for j, (a, b) in enumerate(zip(g, w)):
            if a != b:
                raise Violation("mismatch:thread_%s_depends_on_interleaving" % a[0],
                                {"thread": i, "step": j, "cls": a[1], "got": common.short(a[2:], 300), "want": common.short(b[2:], 300),
                                 "switches": s.switches[:6]})
        expect(len(g) == len(w), "mismatch:thread_observation_count", thread=i)
    cl = ["threads_%d" % len(programs), "preemptions_%d" % len(s.switches)]
    if sum(1 for p in programs if any(o[0] == "compose" for o in p)) >= 2:
        cl.append("two_threads_compose")
    if inside:
        cl.append("preempted_inside_constructor")
    return inside, cl


COMPOSE_PAIRS = [("xcopy5", "xcopy5"), ("xcopy4", "xcopy4"), ("prout", "prout"), ("mode10", "mode6"), ("xcopy5", "prout")]
COMPOSE_VALUES = {
    # (descriptor types and device types are given by name in one thread and by code in the other: the
    # name look-ups run concurrently)
    "xcopy5": [{"priority": 1, "immed": 1, "list_identifier": 0x11223344, "inline_data": bytearray(b"abcd"),
                "cscd_descriptor_list": [{"descriptor_type_code": "Identification Descriptor CSCD descriptor", "_pdt": 0,
                                          "peripheral_device_type": "Direct access block device (e.g., magnetic disk)",
                                          "cscd_descriptor_parameters": {"code_set": 1, "association": 0, "designator_type": 3,
                                                                         "designator": {"naa": 5, "ieee_company_id": 0x123456,
                                                                                        "vendor_specific_identifier": 0x1}}}],
                "segment_descriptor_list": [{"descriptor_type_code": "block -> block", "_code": 2, "block_device_number_of_blocks": 3}]},
               {"priority": 6, "g_sense": 1, "list_identifier": 0x55667788, "sequential_striped": 1,
                "segment_descriptor_list": [{"descriptor_type_code": "Copy from block device to block device", "_code": 2,
                                             "block_device_number_of_blocks": 9}]}],
    "xcopy4": [{"priority": 1, "list_identifier": 0x34, "inline_data": bytearray(b"abcd"),
                "target_descriptor_list": [{"descriptor_type_code": "Identification descriptor target descriptor", "_pdt": 0,
                                            "peripheral_device_type": "Block",
                                            "target_descriptor_parameters": {"code_set": 1, "association": 0, "designator_type": 3,
                                                                             "designator": {"naa": 5, "ieee_company_id": 0x123456,
                                                                                            "vendor_specific_identifier": 0x1}}}],
                "segment_descriptor_list": [{"descriptor_type_code": "block -> block", "_code": 2, "block_device_number_of_blocks": 3}]},
               {"priority": 6, "nrcr": 1, "list_identifier": 0x77,
                "segment_descriptor_list": [{"descriptor_type_code": "Copy from block device to block device", "_code": 2,
                                             "block_device_number_of_blocks": 9}]}],
    "prout": [{"service_action": 0, "kw": {"reservation_key": 0x1111, "service_action_reservation_key": 0x2222}},
              {"service_action": 7, "scope": 0, "pr_type": 3, "kw": {"reservation_key": 0xAAAA, "relative_target_port_id": 5, "unreg": 1,
                                                                     "transport_id": {"protocol_id": 6, "tpid_format": 0, "sas_address": b"\x50" + bytes(7)}}}],
    "mode10": [{"medium_type": 1, "mode_pages": [{"ps": 0, "spf": 0, "page_code": 0x0A, "swp": 1, "tst": 2}]}] * 2,
    "mode6": [{"medium_type": 2, "mode_pages": [{"ps": 0, "spf": 0, "page_code": 0x02, "buffer_full_ratio": 9}]}] * 2,
}

FIXED_PAIRS = [("read10", "inquiry"), ("write16", "read10"), ("inquiry", "readcapacity16"), ("testunitready", "read16"),
               ("modesense6", "reportluns"), ("writesame16", "getlbastatus"), ("read12", "write12"), ("movemedium", "read10"),
               ("persistentreservein", "readelementstatus"), ("atapassthrough16", "inquiry"), ("readcd", "write10"),
               ("synchronizecache16", "modesense10")]


def fixed_program(name):
    cmd = cmds.BY_NAME[name]
    a = gen.minimal(cmd)
    if "blocksize" in a:
        a["blocksize"] = 512
    for k in ("lba", "tl", "page_code", "alloclen", "xfer", "source", "dest", "start", "num"):
        if k in a or k in cmd.pos:
            a[k] = {"lba": 0x12345678, "tl": 2, "page_code": 0x0A, "alloclen": 36, "xfer": 1, "source": 2, "dest": 3, "start": 4, "num": 5}[k]
    if "data" in cmd.pos and not name.startswith("modeselect"):
        a["data"] = bytes(a["blocksize"] * (1 if name.startswith("writesame") else a.get("tl", 0)))
    t = cmd.tables()[0]
    return [("new", name, t, a), ("decode", 0), ("new", name, t, a), ("encode", 1)]


def enumerate_schedules(ctx):
    n = 0
    for pi, (x, y) in enumerate(FIXED_PAIRS if ctx.thorough else FIXED_PAIRS[:6]):
        for a, b in ((x, y), (y, x)):
            progs = [fixed_program(a), fixed_program(b)]
            probe = sched.Scheduler([lambda p=progs[0]: run_program(p)], [])
            probe.run()
            n0 = probe.events  # line events of the first thread alone: preemption points inside it
            probe = sched.Scheduler([lambda p=progs[1]: run_program(p)], [])
            probe.run()
            n1 = probe.events
            step = 1 if ctx.thorough else 4
            for e1 in range(1, n0 + 1, step):
                n += 1
                if ctx.mine(n):
                    common.run_one(ctx, "enumerated_single:%s+%s" % (a, b), {"programs": progs, "schedule": [(e1, 1)]}, check_schedule)
            if ctx.thorough:
                # thread 0 preempted at e1, thread 1 preempted after d more events (back to thread 0)
                for e1 in range(1, n0 + 1, 4):
                    for d in range(1, n1 + 1, 4):
                        n += 1
                        if ctx.mine(n):
                            common.run_one(ctx, "enumerated_double:%s+%s" % (a, b),
                                           {"programs": progs, "schedule": [(e1, 1), (e1 + d, 0)]}, check_schedule)
    for a, b in COMPOSE_PAIRS:
        progs = [[("compose", a, COMPOSE_VALUES[a][0])], [("compose", b, COMPOSE_VALUES[b][1])]]
        probe = sched.Scheduler([lambda p=progs[0]: run_program(p)], [])
        probe.run()
        for e1 in range(1, probe.events + 1, 1 if ctx.thorough else 3):
            n += 1
            if ctx.mine(n):
                common.run_one(ctx, "enumerated_single:%s+%s" % (a, b), {"programs": progs, "schedule": [(e1, 1)]}, check_schedule)
        # the same with the composer classes in their just-imported state: the first use of anything they set up
        # lazily happens in the preempted thread (both orders of the two programs)
        for order in ((0, 1), (1, 0)):
            fprogs = [[("compose", (a, b)[order[0]], COMPOSE_VALUES[(a, b)[order[0]]][order[0]])],
                      [("compose", (a, b)[order[1]], COMPOSE_VALUES[(a, b)[order[1]]][order[1]])]]
            fresh_composers()
            probe = sched.Scheduler([lambda p=fprogs[0]: run_program(p)], [])
            probe.run()
            for e1 in range(1, probe.events + 1, 1 if ctx.thorough else 2):
                n += 1
                if ctx.mine(n):
                    common.run_one(ctx, "enumerated_fresh:%s+%s" % (a, b),
                                   {"programs": fprogs, "schedule": [(e1, 1)], "fresh": True}, check_schedule)
    ctx.exhaustive_parts.append("all single-preemption schedules%s for %d fixed two-thread program pairs" %
                                (" and double-preemption schedules on a stride-4 grid" if ctx.thorough else " (stride 4)", len(FIXED_PAIRS) if ctx.thorough else 6))


def run(ctx):
    common.search(ctx, "history", st.lists(op_strategy(), min_size=2, max_size=30), check_history, ctx.n(1600, 80000))
    common.search(ctx, "history_focused", focused_history(), check_history, ctx.n(1600, 80000))
    common.search(ctx, "schedule", schedule_case(4 if ctx.thorough else 3), check_schedule, ctx.n(640, 80000))
    enumerate_schedules(ctx)


def replay(ctx, subject, case):
    if subject in ("history", "history_focused"):
        check_history([tuple(o) for o in case])
    else:
        check_schedule(case)


def floors(tier, classes, subjects, evaluations, distinct):
    out = ["class %s never generated" % c for c in ("new", "decode", "encode", "rebuild", "drop", "marshall_twice",
                                                     "threads_2", "threads_3", "preempted_inside_constructor")
           if not classes.get(c)]
    return out
