"""C10 - the bit-field codec obeys its algebraic laws for every layout.

Oracle: a reference codec on one big integer (int.from_bytes / shift / mask), written here,
independent of pyscsi.utils.converter."""
import itertools

from hypothesis import strategies as st

from pbt import common
from pbt.common import expect, lib

ID = "C10"
LEVEL = "exploration"
EXHAUSTIVE = False
SHARDS = {"quick": 4, "thorough": 16}
TECHNIQUE = "Hypothesis-generated layouts/values/orders against a big-integer reference codec (differential + round-trip + permutation laws); exhaustive enumeration of narrow fields"
RULE = (
    "layout cases: a buffer of 1..48 bytes is cut into disjoint bit ranges by construction; each "
    "range becomes a [mask, offset] field (width 1..72, any alignment), a b/w/dw blob or a gap; "
    "values in range, arbitrary prior bytes outside the fields, random supply order, random subset; "
    "int cases: sizes 0..40 and integers below 256**size, boundary biased. Non-trivial = a layout "
    "containing a field that is not byte aligned and spans >= 2 bytes, or >= 3 fields each sharing a "
    "byte with another field; int cases: size >= 2 and value >= 256. Distinct = distinct canonical "
    "JSON of (subject, case). The exhaustive parts (all widths <= 8 at all alignments in 2 bytes "
    "with all values; widths 1..72 x alignment 0..7 x 4 patterns) are listed separately."
)
ASSUMPTIONS = [
    "XOR contract of encode_dict: the bits of a field are zero in the buffer before it is encoded (the property's 'arbitrary prior contents outside the field')",
    "blob values have exactly the length the notation announces",
    "masks are written relative to the first byte the field touches, or (second class 'extended_run') relative to a longer run whose trailing bytes exist in the buffer",
]

BLOB_UNITS = {"b": 1, "w": 2, "dw": 4}


def setup(ctx):
    common.import_pyscsi()


def conv():
    import pyscsi.utils.converter as c

    return c


# ---------------------------------------------------------------------------------------
# reference
# ---------------------------------------------------------------------------------------
def field_notation(pos, w, ext=0):
    """[mask, offset] for the field occupying bits pos..pos+w-1 (bit 0 = MSB of byte 0)."""
    off = pos // 8
    last = (pos + w - 1) // 8
    nbytes = last - off + 1 + ext
    shift = 8 * nbytes - ((pos - 8 * off) + w)
    return [((1 << w) - 1) << shift, off]


def ref_get(buf, pos, w):
    total = 8 * len(buf)
    return (int.from_bytes(bytes(buf), "big") >> (total - pos - w)) & ((1 << w) - 1)


def ref_put(buf, pos, w, value):
    total = 8 * len(buf)
    x = int.from_bytes(bytes(buf), "big") | (value << (total - pos - w))
    return bytearray(x.to_bytes(len(buf), "big"))


# ---------------------------------------------------------------------------------------
# generators
# ---------------------------------------------------------------------------------------
def biased_int(w):
    if w == 0:
        return st.just(0)
    top = (1 << w) - 1
    edge = [0, 1, top, top - 1 if top > 1 else top, 1 << (w - 1)]
    alt = int("55" * ((w + 7) // 8), 16) & top
    edge += [alt, alt ^ top]
    return st.one_of(st.sampled_from(edge), st.integers(0, top),
                     st.integers(0, w - 1).map(lambda i: 1 << i))


@st.composite
def layout_case(draw):
    L = draw(st.integers(1, 48))
    total = 8 * L
    items = []
    pos = 0
    while pos < total and len(items) < 24:
        remaining = total - pos
        kinds = ["field", "field", "field", "gap"]
        if pos % 8 == 0:
            kinds.append("blob")
        kind = draw(st.sampled_from(kinds))
        if kind == "blob":
            unit = draw(st.sampled_from(["b", "w", "dw"]))
            maxc = min(16, (remaining // 8) // BLOB_UNITS[unit])
            count = draw(st.integers(0, maxc))
            n = count * BLOB_UNITS[unit]
            val = draw(st.binary(min_size=n, max_size=n))
            asba = draw(st.booleans())
            items.append({"k": unit, "pos": pos, "count": count, "v": bytearray(val) if asba else val})
            pos += 8 * n
            if n == 0:
                # zero-length blobs do not advance: force progress with a gap
                pos += draw(st.integers(1, min(8, remaining)))
            continue
        w = draw(st.one_of(st.integers(1, min(72, remaining)), st.integers(1, min(9, remaining))))
        if kind == "gap":
            pos += w
            continue
        off = pos // 8
        last = (pos + w - 1) // 8
        ext = 0
        if draw(st.integers(0, 9)) == 0:
            ext = draw(st.integers(0, min(2, L - 1 - last)))
        items.append({"k": "f", "pos": pos, "w": w, "ext": ext, "v": draw(biased_int(w))})
        pos += w
    prior = bytearray(draw(st.binary(min_size=L, max_size=L)))
    order = draw(st.permutations(list(range(len(items)))))
    order2 = draw(st.permutations(list(range(len(items)))))
    subset = draw(st.one_of(st.just(None), st.lists(st.booleans(), min_size=len(items), max_size=len(items))))
    return {"L": L, "items": items, "prior": prior, "order": list(order), "order2": list(order2),
            "subset": subset, "noise": bytearray(draw(st.binary(min_size=L, max_size=L)))}


def int_case():
    return st.integers(0, 40).flatmap(
        lambda n: st.tuples(st.just(n), biased_int(8 * n)))


# ---------------------------------------------------------------------------------------
# oracles
# ---------------------------------------------------------------------------------------
def build_layout(items):
    layout, values = {}, {}
    for i, it in enumerate(items):
        name = "f%d" % i
        if it["k"] == "f":
            layout[name] = field_notation(it["pos"], it["w"], it.get("ext", 0))
        else:
            layout[name] = (it["k"], it["pos"] // 8, it["count"])
        values[name] = it["v"]
    return layout, values


def check_layout(case):
    c = conv()
    L, items = case["L"], case["items"]
    layout, values = build_layout(items)
    # prior contents: arbitrary outside the fields, zero inside (XOR contract); blobs overwrite
    prior = bytearray(case["prior"])
    for it in items:
        if it["k"] == "f":
            pos, w = it["pos"], it["w"]
            keep = ref_get(prior, pos, w)
            prior = bytearray((int.from_bytes(bytes(prior), "big") ^ (keep << (8 * L - pos - w))).to_bytes(L, "big"))
    sel = case["subset"] or [True] * len(items)
    expected = bytearray(prior)
    for i, it in enumerate(items):
        if not sel[i]:
            continue
        if it["k"] == "f":
            expected = ref_put(expected, it["pos"], it["w"], it["v"])
        else:
            n = it["count"] * BLOB_UNITS[it["k"]]
            o = it["pos"] // 8
            expected[o:o + n] = it["v"]
    outs = []
    for order in (case["order"], case["order2"]):
        supplied = {}
        for i in order:
            if sel[i]:
                supplied["f%d" % i] = values["f%d" % i]
        buf = bytearray(prior)
        with lib("encode_dict"):
            c.encode_dict(supplied, layout, buf)
        outs.append(buf)
    expect(len(outs[0]) == L, "mismatch:encode_changed_length", got=len(outs[0]), want=L)
    if outs[0] != expected:
        bad = _first_bad_field(items, sel, outs[0], expected)
        expect(False, "mismatch:encode_bits", field=bad, got=outs[0], want=expected, layout=layout)
    expect(outs[0] == outs[1], "mismatch:encode_order_dependent", a=outs[0], b=outs[1])
    # decode what was encoded
    got = {}
    with lib("decode_bits"):
        c.decode_bits(outs[0], layout, got)
    expect(set(got) == set(layout), "mismatch:decode_keys", got=sorted(got), want=sorted(layout))
    for i, it in enumerate(items):
        name = "f%d" % i
        if it["k"] == "f":
            want = it["v"] if sel[i] else 0
            expect(got[name] == want, "mismatch:decode_after_encode", field=it, got=got[name], want=want)
        else:
            n = it["count"] * BLOB_UNITS[it["k"]]
            o = it["pos"] // 8
            expect(isinstance(got[name], (bytes, bytearray, memoryview)) and bytes(got[name]) == bytes(expected[o:o + n]),
                   "mismatch:decode_blob", field=it, got=got[name])
    # decode of an arbitrary buffer reads exactly the field's bits
    noise = case["noise"]
    got2 = {}
    with lib("decode_bits"):
        c.decode_bits(noise, layout, got2)
    for i, it in enumerate(items):
        name = "f%d" % i
        if it["k"] == "f":
            want = ref_get(noise, it["pos"], it["w"])
            expect(got2[name] == want, "mismatch:decode_bits", field=it, got=got2[name], want=want,
                   buffer=noise)
        else:
            n = it["count"] * BLOB_UNITS[it["k"]]
            o = it["pos"] // 8
            expect(isinstance(got2[name], (bytes, bytearray, memoryview)) and bytes(got2[name]) == bytes(noise[o:o + n]),
                   "mismatch:decode_blob", field=it, got=got2[name])
    # classification
    fields = [it for it in items if it["k"] == "f"]
    unaligned_multi = any((f["pos"] % 8 or (f["pos"] + f["w"]) % 8) and
                          (f["pos"] // 8) != ((f["pos"] + f["w"] - 1) // 8) for f in fields)
    byte_use = {}
    for f in fields:
        for b in range(f["pos"] // 8, (f["pos"] + f["w"] - 1) // 8 + 1):
            byte_use.setdefault(b, []).append(id(f))
    sharing = set()
    for b, fs in byte_use.items():
        if len(fs) > 1:
            sharing.update(fs)
    classes = []
    if unaligned_multi:
        classes.append("unaligned_multibyte_field")
    if len(sharing) >= 3:
        classes.append("three_fields_sharing_bytes")
    if any(it["k"] != "f" for it in items):
        classes.append("has_blob")
    if any(f.get("ext") for f in fields):
        classes.append("extended_run")
    if any(f["w"] > 64 for f in fields):
        classes.append("field_wider_than_64")
    if case["subset"] and not all(sel):
        classes.append("partial_supply")
    return (unaligned_multi or len(sharing) >= 3), classes


def _first_bad_field(items, sel, got, want):
    for i, it in enumerate(items):
        if it["k"] == "f" and ref_get(got, it["pos"], it["w"]) != ref_get(want, it["pos"], it["w"]):
            return it
    return "bits outside every field changed"


def check_int(case):
    c = conv()
    n, x = case
    with lib("scsi_int_to_ba"):
        ba = c.scsi_int_to_ba(x, n)
    expect(isinstance(ba, (bytes, bytearray)), "mismatch:int_to_ba_type", got=type(ba).__name__)
    expect(len(ba) == n, "mismatch:int_to_ba_length", n=n, got=len(ba))
    expect(bytes(ba) == x.to_bytes(n, "big"), "mismatch:int_to_ba_not_big_endian", n=n, x=x, got=ba)
    with lib("scsi_ba_to_int"):
        back = c.scsi_ba_to_int(ba)
        back2 = c.scsi_ba_to_int(bytes(ba))
    expect(back == x and back2 == x, "mismatch:ba_to_int_roundtrip", n=n, x=x, got=[back, back2])
    # the array belongs to the caller (the composers extend and patch such arrays in place): whatever is done
    # to it, converting the same integer again gives the same bytes
    if isinstance(ba, bytearray):
        ba += b"\xff"
        if n:
            ba[0] ^= 0xFF
        with lib("scsi_int_to_ba"):
            again = c.scsi_int_to_ba(x, n)
        expect(bytes(again) == x.to_bytes(n, "big"), "mismatch:int_to_ba_depends_on_an_earlier_result", n=n, x=x, got=again)
    return (n >= 2 and x >= 256), ("int_roundtrip",)


def check_bytes(case):
    c = conv()
    b = case
    with lib("scsi_ba_to_int"):
        x = c.scsi_ba_to_int(b)
    expect(x == int.from_bytes(b, "big"), "mismatch:ba_to_int", b=b, got=x)
    with lib("scsi_int_to_ba"):
        ba = c.scsi_int_to_ba(x, len(b))
    expect(bytes(ba) == bytes(b), "mismatch:int_to_ba_roundtrip", b=b, got=ba)
    return (len(b) >= 2 and any(b[:-1])), ("bytes_roundtrip",)


# ---------------------------------------------------------------------------------------
# exhaustive parts
# ---------------------------------------------------------------------------------------
def narrow_cases():
    """every width <= 8 at every alignment over bytes 1..2 of a 4-byte buffer, every value,
    prior bits all-zero and all-ones outside the field."""
    for w in range(1, 9):
        for pos in range(8, 8 + 16 - w + 1):
            for v in range(1 << w):
                for fill in (0x00, 0xFF):
                    yield {"L": 4, "items": [{"k": "f", "pos": pos, "w": w, "ext": 0, "v": v}],
                           "prior": bytearray([fill] * 4), "order": [0], "order2": [0], "subset": None,
                           "noise": bytearray([fill ^ 0xA5] * 4)}


def wide_cases():
    for w in range(1, 73):
        for al in range(8):
            top = (1 << w) - 1
            alt = int("55" * ((w + 7) // 8), 16) & top
            for v in (0, 1, top, alt):
                L = (al + w + 7) // 8 + 2
                yield {"L": L, "items": [{"k": "f", "pos": 8 + al, "w": w, "ext": 0, "v": v}],
                       "prior": bytearray([0xFF] * L), "order": [0], "order2": [0], "subset": None,
                       "noise": bytearray(((i * 37 + 11) & 0xFF) for i in range(L))}


def extended_cases():
    """the same field written as a mask over a longer run (trailing bytes included, the way the library's own
    tables write e.g. [0x800000, 15]): every width 1..16 at every alignment with 1..3 trailing bytes."""
    for ext in (1, 2, 3):
        for w in range(1, 17):
            for al in range(8):
                top = (1 << w) - 1
                for v in sorted({1, top, 1 << (w - 1), int("55" * 2, 16) & top}):
                    L = (al + w + 7) // 8 + 1 + ext + 1
                    yield {"L": L, "items": [{"k": "f", "pos": 8 + al, "w": w, "ext": ext, "v": v}],
                           "prior": bytearray([0xFF] * L), "order": [0], "order2": [0], "subset": None,
                           "noise": bytearray(((i * 37 + 11) & 0xFF) for i in range(L))}


def run(ctx):
    common.search(ctx, "layout", layout_case(), check_layout, ctx.n(4000, 200000))
    common.search(ctx, "int_to_ba", int_case(), check_int, ctx.n(3000, 60000))
    common.search(ctx, "ba_to_int", st.one_of(st.binary(max_size=40), st.binary(max_size=40).map(bytearray)),
                  check_bytes, ctx.n(1500, 30000))
    n = k = 0
    for i, case in enumerate(itertools.chain(narrow_cases(), wide_cases(), extended_cases())):
        if ctx.mine(i):
            common.run_one(ctx, "exhaustive_fields", case, check_layout)
            n += 1
    ctx.exhaustive_parts.append(
        "every field width 1..8 at every alignment within 2 bytes x every value x {00,FF} fill; "
        "every width 1..72 x alignment 0..7 x {0,1,max,alternating}; every width 1..16 x alignment x 1..3 trailing "
        "bytes in the mask")
    ctx.extra["exhaustive_field_cases"] = n


def replay(ctx, subject, case):
    if subject in ("layout", "exhaustive_fields"):
        check_layout(case)
    elif subject == "int_to_ba":
        check_int(tuple(case))
    else:
        check_bytes(case)


def floors(tier, classes, subjects, evaluations, distinct):
    out = []
    lay = subjects.get("layout", [1, 0])[0]
    for cls, frac in (("unaligned_multibyte_field", 0.3), ("has_blob", 0.1),
                      ("three_fields_sharing_bytes", 0.2), ("field_wider_than_64", 0.02),
                      ("extended_run", 0.02), ("partial_supply", 0.1)):
        if classes.get(cls, 0) < frac * lay:
            out.append("class %s below floor: %d of %d layouts" % (cls, classes.get(cls, 0), lay))
    return out
