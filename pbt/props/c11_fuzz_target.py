#!/usr/bin/env python3
"""atheris target for C11: first 4 bytes = selector, rest = buffer; the oracle (step budget)
is inside the target, so a budget overrun is a crash with the input saved."""
import os
import sys

HERE = os.path.dirname(os.path.abspath(__file__))
sys.path.insert(0, os.path.dirname(os.path.dirname(HERE)))
import atheris  # noqa: E402

from pbt import common  # noqa: E402

with atheris.instrument_imports(include=["pyscsi"]):
    common.import_pyscsi()  # installs the stand-ins, then imports pyscsi (instrumented)
    import pyscsi.pyscsi.scsi  # noqa: E402,F401  (pulls in every command module)
    from pbt.props import c11_termination as m  # noqa: E402

    for f in m.respgen.all_formats():
        m.F[f.name] = f
    m.build_decoders()

NAME = os.environ["C11_FUZZ_DECODER"]


def one(data):
    sel = int.from_bytes(data[:4], "little") if len(data) >= 4 else 0
    m.run_one(NAME, data[4:], sel)


atheris.Setup(sys.argv, one)
atheris.Fuzz()
