"""C11 - decoding device data always terminates, whatever the bytes.

Every response and sense decoder runs under a step budget (line events executed in pyscsi
frames, counted with sys.monitoring) that is linear in the size of the buffer.  Inputs:
(1) well-formed responses (C04's builders) with bytes overwritten - in particular every
embedded length/count field ends up at 0, 1, FFh or random - (2) raw byte strings and long
runs of 00h/FFh, (3) thorough: an exhaustive single-byte 00h/FFh walk over sample responses
and coverage-guided atheris campaigns."""
import os
import subprocess
import sys

from hypothesis import strategies as st

from pbt import budget, common, respgen
from pbt.common import Violation

ID = "C11"
LEVEL = "exploration"
EXHAUSTIVE = False
SHARDS = {"quick": 8, "thorough": 16}
TECHNIQUE = "resource-budget oracle (traced line events <= 2000 + 400*len(buffer); 60 s stall monitor and 8 GiB address-space limit for work inside C code) over Hypothesis-mutated conformant responses, raw byte strings, exhaustive single-byte 00/FF walks and (thorough) atheris coverage-guided fuzzing per decoder"
RULE = (
    "one case = (decoder, selector arguments, buffer); buffers are conformant responses with 1..4 overwritten "
    "byte runs (values 00, 01, FF, random; positions biased to headers where the length/count fields live), raw "
    "byte strings of length 0..4096, and runs of 00h/FFh. Non-trivial = at least one embedded length/count field "
    "disagrees with the buffer (measured: the mutated buffer differs from the conformant one inside its first 32 "
    "bytes or inside a descriptor header) or a raw buffer >= 64 bytes; distinct = distinct canonical JSON"
)
ASSUMPTIONS = [
    "termination is judged by a step bound linear in the buffer size with fixed constants (2000 + 400 per byte, > 5x the largest well-formed cost measured)",
    "work inside C code (regular expressions, allocations) produces no line events: two coarse nets stand behind the step bound - a case that has not returned after 60 s of wall-clock time (typical: milliseconds) is reported as no_return by the parent process, which kills the shard; a decoder raising MemoryError under an 8 GiB address-space limit is reported as memory_exhausted. Nothing finer is concluded from time or memory",
    "returning or raising any ordinary exception within budget is a pass (the contract for ill-formed data is only 'terminates')",
]

BASE, PER_BYTE = 2000, 400
# Work done inside C code (regular expressions, big allocations) produces no LINE events.  Two
# coarse nets behind the step budget, both far from anything a linear decoder needs for <= 64 KiB:
STALL_LIMIT = 60          # seconds of wall-clock one case may take before the parent kills the shard
MEM_LIMIT = 8 << 30       # address-space limit of a shard; MemoryError inside a decoder is a violation
DEC = {}
F = {}


def setup(ctx):
    import resource

    soft, hard = resource.getrlimit(resource.RLIMIT_AS)
    if soft == resource.RLIM_INFINITY or soft > MEM_LIMIT:
        resource.setrlimit(resource.RLIMIT_AS, (MEM_LIMIT, hard))
    common.import_pyscsi()
    for f in respgen.all_formats():
        F[f.name] = f
    build_decoders()


def L(mod, cls):
    import importlib

    return getattr(importlib.import_module("pyscsi.pyscsi." + mod), cls)


def build_decoders():
    Inq = L("scsi_cdb_inquiry", "Inquiry")
    RFS = L("scsi_cdb_persistentreservein", "PersistentReserveInReadFullStatus")
    RCD = L("scsi_cdb_readcd", "ReadCd")
    from pyscsi.pyscsi.scsi_sense import SCSICheckCondition

    def sense(b, sel):
        e = SCSICheckCondition(b)
        str(e)
        return e

    DEC.update({
        "inquiry_std": lambda b, sel: Inq.unmarshall_datain(b, evpd=0),
        "inquiry_vpd": lambda b, sel: Inq.unmarshall_datain(b, evpd=1),
        "designator": lambda b, sel: Inq.unmarshall_designator(sel % 12, b),
        "ata_information": lambda b, sel: Inq.unmarshall_ata_information(b),
        "modesense6": lambda b, sel: L("scsi_cdb_modesense6", "ModeSense6").unmarshall_datain(b),
        "modesense10": lambda b, sel: L("scsi_cdb_modesense10", "ModeSense10").unmarshall_datain(b),
        "readcapacity10": lambda b, sel: L("scsi_cdb_readcapacity10", "ReadCapacity10").unmarshall_datain(b),
        "readcapacity16": lambda b, sel: L("scsi_cdb_readcapacity16", "ReadCapacity16").unmarshall_datain(b),
        "getlbastatus": lambda b, sel: L("scsi_cdb_getlbastatus", "GetLBAStatus").unmarshall_datain(b),
        "reportluns": lambda b, sel: L("scsi_cdb_report_luns", "ReportLuns").unmarshall_datain(b),
        "reportpriority": lambda b, sel: L("scsi_cdb_report_priority", "ReportPriority").unmarshall_datain(b),
        "rtpg": lambda b, sel: L("scsi_cdb_report_target_port_groups", "ReportTargetPortGroups").unmarshall_datain(b),
        "readelementstatus": lambda b, sel: L("scsi_cdb_readelementstatus", "ReadElementStatus").unmarshall_datain(b),
        "readdiscinformation": lambda b, sel: L("scsi_cdb_readdiscinformation", "ReadDiscInformation").unmarshall_datain(b),
        "readcd": lambda b, sel: RCD.unmarshall_datain(b, lba=sel & 0xFFFF, tl=min(len(b) // 3072 + ((sel >> 16) & 1), 8),
                                                        est=(sel >> 17) % 6, mcsb=(sel >> 20) & 0x1F, c2ei=(sel >> 25) % 3,
                                                        scsb=((sel >> 27) % 3) * 2),
        "prin_read_keys": lambda b, sel: L("scsi_cdb_persistentreservein", "PersistentReserveInReadKeys").unmarshall_datain(b),
        "prin_read_reservation": lambda b, sel: L("scsi_cdb_persistentreservein", "PersistentReserveInReadReservation").unmarshall_datain(b),
        "prin_report_capabilities": lambda b, sel: L("scsi_cdb_persistentreservein", "PersistentReserveInReportCapabilities").unmarshall_datain(b),
        "prin_read_full_status": lambda b, sel: RFS.unmarshall_datain(b),
        "transport_id": lambda b, sel: RFS.unmarshall_transport_id(b),
        "sense": sense,
    })


# which conformant formats seed which decoder
SEEDS = {
    "inquiry_std": ["inquiry_std"], "inquiry_vpd": ["vpd_00", "vpd_80", "vpd_83", "vpd_86", "vpd_89", "vpd_b0", "vpd_b1", "vpd_b2", "vpd_b3"],
    "modesense6": ["mode6", "mode6_multipage"], "modesense10": ["mode10", "mode10_multipage"],
    "readcapacity10": ["readcapacity10"], "readcapacity16": ["readcapacity16"], "getlbastatus": ["getlbastatus"],
    "reportluns": ["reportluns"], "reportpriority": ["report_priority"], "rtpg": ["rtpg"], "readelementstatus": ["readelementstatus"],
    "readdiscinformation": ["discinfo_standard", "discinfo_track_resources", "discinfo_pow_resources"], "readcd": ["readcd"],
    "prin_read_keys": ["prin_read_keys"], "prin_read_reservation": ["prin_read_reservation"],
    "prin_report_capabilities": ["prin_report_capabilities"], "prin_read_full_status": ["prin_read_full_status"],
    "ata_information": ["vpd_89"], "designator": ["vpd_83"], "transport_id": ["prin_read_full_status"], "sense": [],
}


def run_one(name, buf, sel):
    limit = BASE + PER_BYTE * len(buf)
    steps, outcome = budget.run(lambda: DEC[name](bytearray(buf), sel), limit)
    if outcome[0] == "budget":
        raise Violation("budget_exceeded", {"decoder": name, "steps": outcome[1], "limit": limit, "len": len(buf),
                                            "selector": sel, "head": bytes(buf[:48]).hex()})
    return steps


@st.composite
def mutated(draw, name):
    seeds = SEEDS[name]
    if not seeds or draw(st.integers(0, 5)) == 0:
        n = draw(st.one_of(st.integers(0, 64), st.integers(0, 4096)))
        kind = draw(st.sampled_from(["random", "zeros", "ones", "random"]))
        buf = draw(st.binary(min_size=n, max_size=n)) if kind == "random" else bytes([0 if kind == "zeros" else 0xFF]) * n
        return {"buf": buf, "sel": draw(st.integers(0, 1 << 30)), "kind": "raw_" + kind}
    f = F[draw(st.sampled_from(seeds))]
    good = bytearray(f.build(draw(f.strategy)))
    if name == "transport_id" and len(good) > 32:
        good = good[32:]
    if name == "designator" and len(good) > 8:
        good = good[8:]
    pad = draw(st.integers(0, 16))
    buf = bytearray(good) + bytes(pad)
    n = len(buf)
    header = False
    for _ in range(draw(st.integers(1, 4))):
        if n == 0:
            break
        pos = draw(st.one_of(st.integers(0, min(n - 1, 15)), st.integers(0, min(n - 1, 47)), st.integers(0, n - 1)))
        run_len = draw(st.integers(1, 4))
        val = draw(st.sampled_from([0x00, 0x00, 0x01, 0xFF, 0xFF, None, 0x7F, 0x80]))
        for i in range(pos, min(n, pos + run_len)):
            buf[i] = draw(st.integers(0, 255)) if val is None else val
        header = header or pos < 32
    if draw(st.integers(0, 7)) == 0 and n:
        buf = buf[:draw(st.integers(0, n))]
    return {"buf": bytes(buf), "sel": draw(st.integers(0, 1 << 30)), "kind": "mutated_header" if header else "mutated"}


def make_check(name):
    def check(case):
        common.heartbeat(name, case)
        try:
            run_one(name, case["buf"], case["sel"])
        except MemoryError:
            raise Violation("memory_exhausted", {"decoder": name, "len": len(case["buf"]), "limit_bytes": MEM_LIMIT,
                                                 "head": bytes(case["buf"][:48]).hex()})
        finally:
            common.heartbeat()
        k = case["kind"]
        return (k == "mutated_header" or (k.startswith("raw") and len(case["buf"]) >= 64)), (k,)
    return check


def walk(ctx, name, samples=3):
    """exhaustive single-byte walk: every position of sample conformant responses set to 00h / FFh."""
    import hypothesis

    for fname in SEEDS[name]:
        f = F[fname]
        for i in range(samples):
            v = f.strategy.example() if False else None  # never use .example(): draw through find() instead
        # deterministic samples: smallest and a mid-size example found by Hypothesis' own generator
        ex = []
        strat = f.strategy

        @hypothesis.seed(common.derive_seed(ctx.seed, "walk", fname))
        @common.hyp_settings(12, shrink=False)
        @hypothesis.given(strat)
        def collect(v):
            b = bytes(f.build(v))
            if 0 < len(b) <= 600 and len(ex) < samples:
                ex.append(b)
        collect()
        n = 0
        for b in ex:
            for pos in range(len(b)):
                for val in (0x00, 0xFF):
                    if b[pos] == val:
                        continue
                    n += 1
                    if not ctx.mine(n):
                        continue
                    m = bytearray(b)
                    m[pos] = val
                    common.run_one(ctx, name + ":walk", {"buf": bytes(m), "sel": 0, "kind": "mutated_header" if pos < 32 else "mutated"},
                                   make_check(name))


def run(ctx):
    k = ctx.n(150 * 8, 12000 * 16)
    for name in DEC:
        common.search(ctx, name, mutated(name), make_check(name), k)
        if SEEDS[name] and (ctx.thorough or name in ("readelementstatus", "inquiry_vpd", "prin_read_full_status", "rtpg", "reportpriority", "getlbastatus")):
            walk(ctx, name, samples=3 if ctx.thorough else 1)
    ctx.exhaustive_parts.append("single-byte 00h/FFh walk over sample conformant responses (%s)" % ("all decoders" if ctx.thorough else "descriptor-list decoders"))
    if ctx.thorough:
        fuzz(ctx)


def fuzz(ctx):
    """atheris campaigns (one decoder per shard turn); the saved input is the reproducible unit."""
    try:
        import atheris  # noqa
    except ImportError:
        ctx.extra["atheris"] = "not installed: coverage-guided part skipped"
        return
    names = [n for i, n in enumerate(sorted(DEC)) if ctx.mine(i)]
    runs = int(os.environ.get("VERIF_FUZZ_RUNS", "60000"))
    total = 0
    for name in names:
        scratch = os.path.join(os.environ.get("VERIF_SCRATCH", "/dev/shm"), "fuzz-" + name)
        os.makedirs(scratch, exist_ok=True)
        env = dict(os.environ, C11_FUZZ_DECODER=name)
        p = subprocess.run([sys.executable, "-B", os.path.join(os.path.dirname(__file__), "c11_fuzz_target.py"),
                            "-runs=%d" % runs, "-seed=%d" % (ctx.seed % 1000000 + 1), "-max_len=4096", "-timeout=%d" % STALL_LIMIT,
                            "-artifact_prefix=" + scratch + "/", scratch], env=env, capture_output=True, text=True, timeout=3000)
        done = [l for l in p.stderr.splitlines() if l.startswith("Done ")]
        total += int(done[-1].split()[1]) if done else 0
        arts = [f for f in os.listdir(scratch) if f.startswith(("crash-", "timeout-", "oom-"))]
        for a in arts:
            data = open(os.path.join(scratch, a), "rb").read()
            sel = int.from_bytes(data[:4], "little") if len(data) >= 4 else 0
            common.run_one(ctx, name + ":fuzz", {"buf": data[4:], "sel": sel, "kind": "fuzz"}, make_check(name))
    ctx.extra["atheris_executions"] = total
    ctx.evaluations += total


def replay(ctx, subject, case):
    make_check(subject.split(":")[0])(case)


def floors(tier, classes, subjects, evaluations, distinct):
    return ["class %s never generated" % c for c in ("mutated_header", "mutated", "raw_random", "raw_zeros", "raw_ones")
            if not classes.get(c)]
