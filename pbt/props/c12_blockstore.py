"""C12 - data written through the library is read back intact from a conformant target.

Model-based: a history of facade calls runs against a simulated conformant block target behind
the SG_IO and iSCSI stand-ins (the target decodes CDBs with stdspec, not with the library) and,
in lock-step, against a reference model of the medium kept by the check."""
import hashlib

from hypothesis import strategies as st

from pbt import common, gen, transports
from pbt.common import expect, lib
from pbt.standins.target import Target

ID = "C12"
LEVEL = "exploration"
EXHAUSTIVE = False
SHARDS = {"quick": 8, "thorough": 16}
TECHNIQUE = "model-based stateful PBT: generated read/write/write-same/sync/capacity/inquiry histories against a simulated conformant target with an independent CDB decoder, lock-step reference model of the medium, SG_IO vs iSCSI differential"
RULE = (
    "one case = target geometry (block size, capacity up to 2^64-1 blocks) + a history of <= 25 facade "
    "calls (write10/12/16, writesame10/16 incl. unmap/anchor/ndob, read10/12/16, synchronizecache10/16, "
    "readcapacity10/16, inquiry std/VPD 80h/83h, and device-node replug events on the SG_IO transport) with LBAs biased to 0, earlier write boundaries, 2^32 +- k "
    "and the end of the medium; every flag combination; run over both transports. Non-trivial = a read "
    "overlapping >= 2 earlier writes or any access at LBA >= 2^32; distinct = distinct canonical JSON"
)
ASSUMPTIONS = [
    "the simulated target (pbt/standins/target.py + stdspec) is a faithful conformant SBC target for the commands used; WRITE SAME with UNMAP writes the block (a permitted behaviour); NUMBER OF LOGICAL BLOCKS = 0 is not generated (WSNZ=1 target)",
    "protection information is not modelled: RDPROTECT/WRPROTECT arrive but are not acted on",
    "binding stand-ins as in DESIGN.md Appendix D",
    "transfers that run past the end of the medium are answered CHECK CONDITION / ILLEGAL REQUEST / LBA OUT OF RANGE by the target: the caller must see a CheckCondition with ASC 21h on both transports and nothing is written",
    "data of up to three earlier reads that the caller still holds is re-verified after every read",
]

BS = [512, 520, 1024, 4096]
CAPS = [1000, (1 << 32) - 1, (1 << 32) + 4096, 1 << 40, (1 << 64) - 1]


def setup(ctx):
    common.import_pyscsi()


def pattern(seed, nblocks, bs):
    out = bytearray()
    for i in range(nblocks):
        d = hashlib.blake2b(b"%d/%d" % (seed, i), digest_size=32).digest()
        out += (d * (bs // 32 + 1))[:bs]
    return bytes(out)


@st.composite
def history(draw):
    bs = draw(st.sampled_from(BS))
    cap = draw(st.sampled_from(CAPS))
    n = draw(st.integers(1, 25))
    ops = []
    marks = [0]

    def lba_for(width, span):
        top = min(cap - span, (1 << width) - 1)  # LBA + span within the medium, LBA within its field
        if top < 0:
            return None
        cands = [0, top]
        for m in marks:
            for d in (-1, 0, 1):
                if 0 <= m + d <= top:
                    cands.append(m + d)
        for base in (1 << 32, cap):
            for d in (-9, -span, -1, 0, 1, 7):
                if 0 <= base + d <= top:
                    cands.append(base + d)
        return draw(st.one_of(st.sampled_from(sorted(set(cands))), st.sampled_from(sorted(set(cands))),
                              st.sampled_from(sorted({m for m in marks if 0 <= m <= top}) or [0]),
                              st.integers(0, min(top, 64)), st.integers(0, top)))

    for _ in range(n):
        kind = draw(st.sampled_from(["w", "w", "w", "ws", "r", "r", "r", "r", "sync", "cap10", "cap16", "inq", "replug", "oob"]))
        if kind == "replug":
            ops.append({"k": "replug"})
            continue
        if kind == "oob":
            # a transfer that runs past the end of the medium: the target answers CHECK CONDITION / ILLEGAL
            # REQUEST / LBA OUT OF RANGE, the caller sees that error on both transports and nothing is written
            v = draw(st.sampled_from([10, 12, 16]))
            tl = draw(st.integers(1, 4))
            lba = cap - draw(st.integers(0, tl - 1))
            if lba >= (1 << (64 if v == 16 else 32)) or lba < 0:
                continue
            ops.append({"k": "oob", "rw": draw(st.sampled_from(["r", "w"])), "v": v, "lba": lba, "tl": tl,
                        "seed": draw(st.integers(0, 1 << 30))})
            continue
        if kind in ("w", "r"):
            v = draw(st.sampled_from([10, 12, 16]))
            tl = draw(st.integers(0, 8))
            lba = lba_for(64 if v == 16 else 32, tl)
            if kind == "r" and lba is not None and lba > 0 and draw(st.booleans()):
                lba -= draw(st.integers(0, min(lba, 3)))  # start a little before a boundary
            if lba is None:
                continue
            op = {"k": kind, "v": v, "lba": lba, "tl": tl}
            prot = "wrprotect" if kind == "w" else "rdprotect"
            for f, w in ((prot, 3), ("dpo", 1), ("fua", 1), ("group", 5)) + ((("rarc", 1),) if kind == "r" else ()):
                if draw(st.booleans()):
                    op[f] = draw(gen.fv(w))
            if kind == "w":
                op["seed"] = draw(st.integers(0, 1 << 30))
                marks += [lba, lba + tl]
            ops.append(op)
        elif kind == "ws":
            v = draw(st.sampled_from([10, 16]))
            nbmax = min((1 << 16) - 1 if v == 10 else (1 << 32) - 1, cap)
            nb = draw(st.one_of(st.integers(1, min(64, nbmax)), st.integers(1, min(64, nbmax)), st.integers(1, nbmax)))
            lba = lba_for(64 if v == 16 else 32, nb)
            if lba is None:
                continue
            op = {"k": "ws", "v": v, "lba": lba, "nb": nb, "seed": draw(st.integers(0, 1 << 30))}
            ua = draw(st.sampled_from([(0, 0), (1, 0), (1, 1)]))
            if ua != (0, 0) or draw(st.booleans()):
                op["unmap"], op["anchor"] = ua
            for f, w in (("wrprotect", 3), ("group", 5)):
                if draw(st.booleans()):
                    op[f] = draw(gen.fv(w))
            if v == 16 and draw(st.integers(0, 3)) == 0:
                op["ndob"] = 1
            marks += [lba, lba + min(nb, 64)]
            ops.append(op)
        elif kind == "sync":
            v = draw(st.sampled_from([10, 16]))
            nb = draw(st.integers(0, 64))
            lba = lba_for(64 if v == 16 else 32, nb)
            if lba is None:
                continue
            op = {"k": "sync", "v": v, "lba": lba, "nb": nb}
            for f, w in (("immed", 1), ("group", 5)):
                if draw(st.booleans()):
                    op[f] = draw(gen.fv(w))
            ops.append(op)
        elif kind == "inq":
            op = {"k": "inq", "page": draw(st.sampled_from([None, 0x80, 0x83, 0x00]))}
            if op["page"] is None and draw(st.booleans()):
                op["alloclen"] = draw(st.sampled_from([36, 58, 64, 96, 128, 255]))
            ops.append(op)
        elif kind == "cap16" and draw(st.booleans()):
            ops.append({"k": "cap16", "alloclen": draw(st.sampled_from([12, 16, 32, 64, 252]))})
        else:
            ops.append({"k": kind})
    ident = {
        "t10_vendor_identification": draw(st.binary(min_size=8, max_size=8)),
        "product_identification": draw(st.binary(min_size=16, max_size=16)),
        "product_revision_level": draw(st.binary(min_size=4, max_size=4)),
        "version": draw(gen.fv(8)), "rmb": draw(st.integers(0, 1)), "cmdque": draw(st.integers(0, 1)),
        "tpgs": draw(gen.fv(2)), "protect": draw(st.integers(0, 1)),
        # the target's standard INQUIRY data: the 36-byte minimum (revision level in its last bytes) up to 96 bytes
        "std_len": draw(st.sampled_from([36, 36, 57, 58, 96, 96])),
    }
    serial = draw(st.binary(min_size=1, max_size=24))
    rc16 = {"p_type": draw(gen.fv(3)), "prot_en": draw(st.integers(0, 1)), "p_i_exponent": draw(gen.fv(4)),
            "lbppbe": draw(gen.fv(4)), "lbpme": draw(st.integers(0, 1)), "lbprz": draw(st.integers(0, 1)),
            "lowest_aligned_lba": draw(gen.fv(14))}
    return {"bs": bs, "cap": cap, "ops": ops, "ident": ident, "serial": serial, "rc16": rc16,
            "devtype": draw(st.sampled_from([0x00, 0x00, 0x04, 0x07]))}


class Model(object):
    """reference model of the medium (kept by the check, separate from the target's store)."""

    def __init__(self, bs):
        self.bs = bs
        self.single = {}  # lba -> (stamp, bytes)
        self.ranges = []  # (stamp, lba, n, block)
        self.stamp = 0

    def write(self, lba, data):
        self.stamp += 1
        for i in range(len(data) // self.bs):
            self.single[lba + i] = (self.stamp, data[i * self.bs:(i + 1) * self.bs])

    def write_same(self, lba, n, block):
        self.stamp += 1
        self.ranges.append((self.stamp, lba, n, block))

    def read(self, lba, n):
        out = bytearray()
        for i in range(n):
            best = (0, bytes(self.bs))
            if lba + i in self.single:
                best = self.single[lba + i]
            for stamp, start, cnt, block in self.ranges:
                if start <= lba + i < start + cnt and stamp > best[0]:
                    best = (stamp, block)
            out += best[1]
        return bytes(out)

    def writers_of(self, lba, n):
        ws = set()
        for i in range(n):
            best = 0
            if lba + i in self.single:
                best = self.single[lba + i][0]
            for stamp, start, cnt, block in self.ranges:
                if start <= lba + i < start + cnt and stamp > best:
                    best = stamp
            if best:
                ws.add(best)
        return ws


def run_history(case, transport):
    from pyscsi.pyscsi.scsi import SCSI

    bs, cap = case["bs"], case["cap"]
    tgt = Target(bs, cap, devtype=case["devtype"], identity={"std": case["ident"], "readcap16": case["rc16"],
                                                           "std_len": case["ident"].get("std_len", 96)},
                 vpd={"serial": case["serial"], "designators": [
                     {"designator_type": 3, "code_set": 1, "association": 0,
                      "designator": {"naa": 5, "ieee_company_id": 0x123456, "vendor_specific_identifier": 0xABCDE0123}},
                     {"designator_type": 4, "code_set": 1, "association": 1, "piv": 1, "protocol_identifier": 6,
                      "designator": {"relative_port": 0x0102}}]})
    transports.set_handler(tgt.handle)
    model = Model(bs)
    obs = []
    nontrivial = False
    path = transports.node_path("c12")
    dev = transports.make_sgio(path, readwrite=True) if transport == "sgio" else transports.make_iscsi()
    try:
        with lib("attach"):
            s = SCSI(dev, bs)
        expect(len(tgt.log) == 1 and tgt.log[0].get("name") == "INQUIRY", "mismatch:attach_commands",
               log=[r.get("name") for r in tgt.log])
        held = []
        for i, op in enumerate(case["ops"]):
            before = len(tgt.log)
            k = op["k"]
            if k == "replug":
                # the device node is replaced (hot-plug); the SG_IO transport re-opens it, iSCSI is unaffected
                if transport == "sgio":
                    import os
                    os.unlink(path)
                    transports.make_node(path)
                obs.append(("replug", i))
                continue
            flags = {f: op[f] for f in ("wrprotect", "rdprotect", "dpo", "fua", "rarc", "group", "unmap", "anchor",
                                        "ndob", "immed") if f in op}
            if k == "oob":
                try:
                    if op["rw"] == "w":
                        getattr(s, "write%d" % op["v"])(op["lba"], op["tl"], pattern(op["seed"], op["tl"], bs))
                    else:
                        getattr(s, "read%d" % op["v"])(op["lba"], op["tl"])
                    exc = None
                except Exception as e:  # noqa
                    exc = e
                expect(exc is not None, "mismatch:out_of_range_transfer_looks_successful", op=op, transport=transport)
                expect(type(exc).__name__ == "CheckCondition" and getattr(exc, "asc", None) == 0x21,
                       "mismatch:out_of_range_error", op=op, got=repr(exc)[:160], transport=transport)
                obs.append(("oob", i))
                expect(len(tgt.log) == before + 1, "mismatch:commands_per_call", op=op, n=len(tgt.log) - before)
                continue
            if k == "w":
                data = pattern(op["seed"], op["tl"], bs)
                with lib("write%d" % op["v"]):
                    getattr(s, "write%d" % op["v"])(op["lba"], op["tl"], data, **flags)
                model.write(op["lba"], data)
                obs.append(("w", i))
            elif k == "ws":
                block = pattern(op["seed"], 1, bs)
                ndob = op.get("ndob")
                with lib("writesame%d" % op["v"]):
                    getattr(s, "writesame%d" % op["v"])(op["lba"], op["nb"], None if ndob else block, **flags)
                model.write_same(op["lba"], op["nb"], bytes(bs) if ndob else block)
                obs.append(("ws", i))
            elif k == "r":
                with lib("read%d" % op["v"]):
                    c = getattr(s, "read%d" % op["v"])(op["lba"], op["tl"], **flags)
                want = model.read(op["lba"], op["tl"])
                got = bytes(c.datain)
                if got != want:
                    bad = next((j for j in range(min(len(got), len(want))) if got[j] != want[j]), min(len(got), len(want)))
                    expect(False, "mismatch:read_data", op=op, first_bad_byte=bad, got_len=len(got), want_len=len(want))
                obs.append(("r", i, hashlib.blake2b(got, digest_size=8).hexdigest()))
                held.append((op, c, hashlib.blake2b(got, digest_size=8).digest()))
                # data read earlier and still held by the caller is not altered by later commands
                for op0, c0, h0 in held[-4:-1]:
                    expect(hashlib.blake2b(bytes(c0.datain), digest_size=8).digest() == h0,
                           "mismatch:earlier_read_data_changed_by_a_later_command", earlier=op0, later=op)
                if len(model.writers_of(op["lba"], op["tl"])) >= 2:
                    nontrivial = True
            elif k == "sync":
                with lib("synchronizecache%d" % op["v"]):
                    getattr(s, "synchronizecache%d" % op["v"])(op["lba"], op["nb"], **flags)
                obs.append(("sync", i))
            elif k == "cap10":
                with lib("readcapacity10"):
                    r = s.readcapacity10().result
                expect(r.get("returned_lba") == min(cap - 1, 0xFFFFFFFF) and r.get("block_length") == bs,
                       "mismatch:readcapacity10", got=r, cap=cap, bs=bs)
                obs.append(("cap10", r["returned_lba"], r["block_length"]))
            elif k == "cap16":
                with lib("readcapacity16"):
                    r = (s.readcapacity16(alloclen=op["alloclen"]) if "alloclen" in op else s.readcapacity16()).result
                want = dict(case["rc16"], returned_lba=cap - 1, block_length=bs)
                if op.get("alloclen", 32) < 16:
                    # the caller asked for the first 12 bytes only: geometry, not the protection / provisioning fields
                    want = {"returned_lba": cap - 1, "block_length": bs}
                for kk, vv in want.items():
                    expect(r.get(kk) == vv, "mismatch:readcapacity16:" + kk, got=r.get(kk), want=vv)
                obs.append(("cap16", r["returned_lba"], r["block_length"]))
            else:
                page = op["page"]
                with lib("inquiry"):
                    if page is None:
                        r = (s.inquiry(alloclen=op["alloclen"]) if "alloclen" in op else s.inquiry()).result
                    else:
                        r = s.inquiry(evpd=1, page_code=page, alloclen=252).result
                expect(r.get("peripheral_device_type") == case["devtype"], "mismatch:inquiry:peripheral_device_type",
                       got=r.get("peripheral_device_type"))
                if page is None:
                    for kk, vv in case["ident"].items():
                        if kk == "std_len":
                            continue
                        g = r.get(kk)
                        g = bytes(g) if isinstance(g, (bytes, bytearray)) else g
                        expect(g == vv, "mismatch:inquiry:" + kk, got=g, want=vv)
                elif page == 0x80:
                    expect(bytes(r.get("unit_serial_number", b"")) == case["serial"], "mismatch:inquiry:serial",
                           got=r.get("unit_serial_number"), want=case["serial"])
                elif page == 0x83:
                    dd = r.get("designator_descriptors", [])
                    expect(len(dd) == 2 and dd[0]["designator"].get("vendor_specific_identifier") == 0xABCDE0123
                           and dd[1]["designator"].get("relative_port") == 0x0102, "mismatch:inquiry:designators", got=dd)
                else:
                    expect(list(r.get("vpd_pages", [])) == [0x00, 0x80, 0x83, 0xB0], "mismatch:inquiry:vpd_pages",
                           got=r.get("vpd_pages"))
                obs.append(("inq", page))
            expect(len(tgt.log) == before + 1, "mismatch:commands_per_call", op=op, n=len(tgt.log) - before)
            # the conformant target decoded the command the caller asked for
            seen = tgt.log[-1]
            want_name = {"w": "WRITE(%d)", "r": "READ(%d)", "ws": "WRITE SAME(%d)", "sync": "SYNCHRONIZE CACHE(%d)"}.get(k)
            if want_name:
                expect(seen.get("name") == want_name % op["v"], "mismatch:command_seen_by_target", op=op, seen=seen.get("name"))
                f = seen.get("fields", {})
                cnt = f.get("TRANSFER LENGTH", f.get("NUMBER OF LOGICAL BLOCKS"))
                expect(f.get("LBA") == op["lba"] and cnt == op.get("tl", op.get("nb")), "mismatch:lba_or_count_seen_by_target",
                       op=op, lba=f.get("LBA"), count=cnt)
            expect(not tgt.protocol_errors, "mismatch:transport_lengths_disagree_with_cdb", op=op,
                   errors=tgt.protocol_errors[:1])
            if op.get("lba", 0) >= 1 << 32:
                nontrivial = True
    finally:
        try:
            dev.close()
        except Exception:  # noqa
            pass
        transports.set_handler(None)
    return obs, nontrivial


def check(case):
    a, nt1 = run_history(case, "sgio")
    b, nt2 = run_history(case, "iscsi")
    expect(a == b, "mismatch:transports_differ", sgio=a[:6], iscsi=b[:6])
    kinds = sorted({op["k"] + str(op.get("v", "")) for op in case["ops"]})
    return (nt1 or nt2), kinds + (["lba_ge_2^32"] if any(op.get("lba", 0) >= 1 << 32 for op in case["ops"]) else [])


def run(ctx):
    common.search(ctx, "history", history(), check, ctx.n(2400, 60000))


def replay(ctx, subject, case):
    check(case)


def floors(tier, classes, subjects, evaluations, distinct):
    n = subjects.get("history", [1, 0])[0]
    out = []
    if classes.get("lba_ge_2^32", 0) < 0.05 * n:
        out.append("fewer than 5%% of histories touch an LBA >= 2^32 (%d of %d)" % (classes.get("lba_ge_2^32", 0), n))
    for c in ("replug", "w10", "w12", "w16", "ws10", "ws16", "r10", "r12", "r16", "sync10", "sync16", "cap10", "cap16", "inq"):
        if not classes.get(c):
            out.append("operation %s never generated" % c)
    return out
