"""C13 - each facade call sends exactly one command and decodes what the device returned.

All 38 facade methods x every table that defines the command x generated arguments x subsets of
the optional keyword arguments; the recording device plays the target: inside execute() it
overwrites cmd.datain with a well-formed response built by pbt.stdspec.responses from generated
values (which a decode-before-execute cannot reproduce)."""
import inspect
import itertools
import re

from hypothesis import strategies as st

from pbt import cmds, common, devs, gen, paramgen, respgen
from pbt.common import Violation, expect, lib
from pbt.props import c01_cdb_wire as c01
from pbt.stdspec import cdb as S

ID = "C13"
LEVEL = "exploration"
EXHAUSTIVE = False
SHARDS = {"quick": 8, "thorough": 16}
TECHNIQUE = "Hypothesis arguments x optional-keyword subsets per facade method and table on a recording device that writes an independently built conformant response during execute; CDB judged by the independent standards model, result by the expected-value tree; documented keyword names parsed from the docstrings"
RULE = (
    "one case = (facade method, table, argument dict with a generated subset of the optional keywords, device "
    "response values); every subset of the optional keywords is additionally enumerated with minimal values, and "
    "every keyword name documented in the method's docstring is tried. Non-trivial = at least one optional "
    "supplied and one omitted, with a device-written buffer that differs from the zero buffer; distinct = "
    "distinct canonical JSON"
)
ASSUMPTIONS = [
    "the recording device object offers what the facade needs (opcodes, devicetype, execute, close)",
    "responses are those of C04 (pbt/respgen.py); when a response does not fit the buffer (default buffer, or - one case in eight - a deliberately short allocation length) it is truncated: the structural clauses are judged, and the result must be what the command's own decoder makes of the truncated buffer (if that decoder raises, a facade call that returns normally is a violation)",
    "one case in eight meets a device that raises (TypeError, OSError, ValueError, RuntimeError, KeyError, AttributeError, IndexError) after it has taken the command: exactly one hand-over, the exception reaches the caller",
    "ALLOCATION LENGTH 0 (one case in twelve): nothing is decoded; the decoders raise on an empty buffer, which is not judged - the CDB that reached the device is",
    "'documented arguments' = names written as name=default / name = default in the ':param kwargs:' part of the facade docstring",
]

FORMATS = {}
VPD_PAGE = {"vpd_00": 0x00, "vpd_80": 0x80, "vpd_83": 0x83, "vpd_86": 0x86, "vpd_89": 0x89, "vpd_b0": 0xB0,
            "vpd_b1": 0xB1, "vpd_b2": 0xB2, "vpd_b3": 0xB3}
PRIN_FMT = {0: "prin_read_keys", 1: "prin_read_reservation", 2: "prin_report_capabilities", 3: "prin_read_full_status"}
DISC_FMT = {0: "discinfo_standard", 1: "discinfo_track_resources", 2: "discinfo_pow_resources"}
ALLOC_ARG = {"alloclen", "alloc_len"}


def setup(ctx):
    common.import_pyscsi()
    for f in respgen.all_formats():
        FORMATS[f.name] = f


def facade_cmds():
    return [c for c in cmds.COMMANDS if c.facade and c.name != "persistentreservein"]


# ---------------------------------------------------------------------------------------
# strategies
# ---------------------------------------------------------------------------------------
@st.composite
def case_for(draw, cmd):
    name = cmd.name
    if name == "persistentreserveout":
        return {"a": draw(paramgen.prout_args()), "resp": None}
    if name.startswith("extendedcopy"):
        return {"a": draw(paramgen.xcopy_args(name.endswith("5"))), "resp": None}
    if name.startswith("modeselect"):
        a = {"data": draw(paramgen.mode_data(name.endswith("10")))}
        for k in ("pf", "sp"):
            if draw(st.booleans()):
                a[k] = draw(st.integers(0, 1))
        return {"a": a, "resp": None}
    if name == "readcd":
        v = draw(FORMATS["readcd"].strategy)
        a = {"lba": v["lba"], "tl": v["tl"]}
        full = draw(st.integers(0, 3)) != 0
        for k in ("est", "mcsb", "c2ei", "scsb"):
            if full or draw(st.booleans()):
                a[k] = v[k]
        if "est" not in a:
            # expected sector type "any" (default 0): the layout of main-channel data is then unknown
            # to the initiator, so no main-channel selection is requested either
            a.pop("mcsb", None)
        if draw(st.booleans()):
            a["dap"] = draw(st.integers(0, 1))
        return {"a": a, "resp": ("readcd", v) if all(k in a for k in ("est", "mcsb", "c2ei", "scsb")) else None}
    a = draw(gen.args(cmd))
    resp = None
    if name == "inquiry":
        if a.get("evpd"):
            a["evpd"] = 1
            f = draw(st.sampled_from(sorted(VPD_PAGE)))
            a["page_code"] = VPD_PAGE[f]
        else:
            a.pop("page_code", None)
            f = "inquiry_std"
        resp = (f, draw(FORMATS[f].strategy))
    elif name in ("modesense6", "modesense10"):
        f = "mode6" if name == "modesense6" else "mode10"
        v = draw(FORMATS[f].strategy)
        page = v[1][0]
        a["page_code"] = page["page_code"]
        if page.get("spf"):
            a["sub_page_code"] = page["sub_page_code"]
        else:
            a.pop("sub_page_code", None)
        resp = (f, v)
    elif name.startswith("prin_"):
        f = PRIN_FMT[cmd.defaults["service_action"]]
        resp = (f, draw(FORMATS[f].strategy))
    elif name == "readdiscinformation":
        a["data_type"] = draw(st.integers(0, 2))
        f = DISC_FMT[a["data_type"]]
        resp = (f, draw(FORMATS[f].strategy))
    else:
        for f in FORMATS.values():
            if f.cmd == name and not f.name.endswith("multipage"):
                resp = (f.name, draw(f.strategy))
                break
    if resp is not None and name not in ("readcapacity10", "readcd") and draw(st.integers(0, 11)) == 0:
        # the caller only wants the command sent (ALLOCATION LENGTH 0 is valid and means "no data"): nothing
        # comes back, nothing is decoded, and the zero reaches the CDB
        for k in ALLOC_ARG:
            if k in a:
                a[k] = 0
                resp = None
    if resp is None and any(k in a for k in ("tl",)) and name.startswith("read"):
        resp = ("raw", draw(st.binary(min_size=1, max_size=64)))
    # make the response fit when the caller chooses the allocation length
    if resp is not None and resp[0] != "raw":
        need = len(FORMATS[resp[0]].build(resp[1]))
        short = draw(st.integers(0, 7)) == 0  # one case in eight: the caller asks for the first part only
        for k in ALLOC_ARG:
            if k in a:
                w = gen.std_width(cmd, k) or 16
                a[k] = min((1 << w) - 1, max(a[k] % 4096, need + draw(st.integers(0, 16))))
                if short and need > 1:
                    a[k] = draw(st.integers(1, need - 1))
        if name == "readcapacity10" and "alloclen" in a:
            a["alloclen"] = max(8, a["alloclen"])
    return {"a": a, "resp": resp}


# ---------------------------------------------------------------------------------------
# the oracle
# ---------------------------------------------------------------------------------------
def call(cmd, s, a):
    if cmd.name == "persistentreserveout":
        extra = {k: a[k] for k in ("scope", "pr_type") if k in a}
        return s.persistentreserveout(a["service_action"], **extra, **paramgen.strip_notes(a["kw"]))
    if cmd.name.startswith("extendedcopy"):
        return getattr(s, cmd.facade)(**paramgen.strip_notes(a))
    if cmd.name.startswith("modeselect"):
        a = dict(a, data=paramgen.strip_notes(a["data"]))
    return cmd.call(s, a)


def make_check(cmd, table):
    def check(case):
        a = gen.materialize(case["a"]) if "kw" not in case["a"] else case["a"]
        resp = case.get("resp")
        written = {}

        def responder(dev, c, rec):
            if resp is None or c.datain is None:
                return
            data = bytes(resp[1]) if resp[0] == "raw" else bytes(FORMATS[resp[0]].build(resp[1]))
            n = min(len(data), len(c.datain))
            if resp[0] == "raw":
                data = (data * (len(c.datain) // len(data) + 1))[:len(c.datain)]
                n = len(data)
            c.datain[:n] = data[:n]
            written["full"] = n == len(data)
            written["bytes"] = bytes(c.datain)

        fault = case.get("fault")
        if fault:
            inner = responder
            boom = FAULTS[fault]("injected device failure")

            def responder(dev, c, rec):  # noqa: F811
                inner(dev, c, rec)
                raise boom

        with lib("attach"):
            s, dev = devs.attach(table, blocksize=a.get("blocksize", 512) if isinstance(a, dict) else 512,
                                 responder=responder, variant=case.get("devvariant", 0))
        if fault:
            # the command was handed over once; the failure reaches the caller and nothing is sent again
            try:
                call(cmd, s, a)
                raised = None
            except Exception as e:  # noqa
                raised = e
            expect(len(dev.calls) == 1, "mismatch:execute_count_after_device_failure", n=len(dev.calls), fault=fault)
            expect(raised is not None, "mismatch:device_failure_swallowed", fault=fault)
            return True, ("device_fault", "resp_fault")
        try:
            with lib("facade " + cmd.facade):
                c = call(cmd, s, a)
        except Violation as v:
            zero_alloc = isinstance(a, dict) and any(a.get(k) == 0 for k in ALLOC_ARG if k in a)
            if len(dev.calls) == 1 and zero_alloc and v.kind.startswith("exc:") and "kw" not in a:
                # nothing was asked for, so there is nothing to decode (the decoders raise on an empty buffer):
                # the command that reached the device is judged
                c01.judge(cmd, table, dev.calls[0]["cdb"], a)
                expect(dev.calls[0]["datain_len"] in (0, None), "mismatch:datain_buffer_although_nothing_was_asked_for",
                       n=dev.calls[0]["datain_len"])
                return False, ("alloc_zero",)
            if len(dev.calls) == 1 and written.get("full") is False:
                # the response did not fit the (default) buffer and was cut: not a conformant
                # response any more, decode errors are not judged; structural clauses only
                return False, ("resp_truncated",)
            v.detail["executes"] = len(dev.calls)
            v.detail["args"] = common.short({k: x for k, x in a.items() if k != "data"}, 300) if isinstance(a, dict) else ""
            raise
        expect(len(dev.calls) == 1, "mismatch:execute_count", n=len(dev.calls))
        rec = dev.calls[0]
        expect(rec["cmd"] is c, "mismatch:returned_object_is_not_the_executed_one")
        expect(id(c.datain) == rec["datain_id"], "mismatch:datain_buffer_replaced_after_execute")
        expect(id(c.dataout) == rec["dataout_id"], "mismatch:dataout_buffer_replaced_after_execute")
        expect(bytes(c.cdb) == rec["cdb"], "mismatch:cdb_changed_after_execute")
        if (cmd.name.startswith("atapassthrough") and isinstance(a, dict) and a.get("t_dir") == 1
                and isinstance(a.get("data"), bytearray) and len(a["data"])):
            # a data-in buffer supplied by the caller is the buffer the device fills
            expect(rec["datain_id"] == id(a["data"]), "mismatch:callers_datain_buffer_not_handed_to_the_device")
        # opcode as assigned in the attached device's table, CDB per the standard
        with lib("opcode lookup"):
            want_op = cmd.opcode(table).value
        expect(rec["cdb"][0] == want_op, "mismatch:opcode_not_from_device_table", got=rec["cdb"][0], want=want_op)
        if "kw" not in a and not cmd.name.startswith(("extendedcopy", "modeselect")):
            c01.judge(cmd, table, rec["cdb"], a)
        else:
            probs = S.audit(cmd.std, rec["cdb"])
            expect(not probs, "mismatch:cdb_audit", problems=probs)
        # the result reflects what the device wrote during execute
        if resp is not None:
            expect(bytes(c.datain) == written.get("bytes"), "mismatch:datain_not_what_the_device_wrote")
            if resp[0] != "raw" and hasattr(cmd.cls, "unmarshall_datain"):
                # ... it is what the command's decoder makes of that buffer - also when the buffer holds only the
                # first part of a response (short allocation length): if the decoder cannot decode it, the facade
                # call cannot have succeeded with some other result
                kw = {}
                if cmd.name == "inquiry":
                    kw = {"evpd": a.get("evpd", 0)}
                elif cmd.name == "readcd":
                    kw = {k: a.get(k, 0) for k in ("lba", "tl", "est", "mcsb", "c2ei", "scsb")}
                try:
                    direct = cmd.cls.unmarshall_datain(bytearray(written["bytes"]), **kw)
                except Exception as e:  # noqa
                    raise Violation("mismatch:facade_succeeded_where_the_decoder_fails",
                                    {"decoder_error": repr(e)[:160], "result": common.short(c.result, 200)})
                expect(c.result == direct, "mismatch:result_is_not_the_decoders_output", got=common.short(c.result, 300),
                       want=common.short(direct, 300))
            if resp[0] != "raw" and written.get("full"):
                d = respgen.compare(c.result, FORMATS[resp[0]].expect(resp[1]))
                if d is not None:
                    path, kind, g, w = d
                    raise Violation("mismatch:result:%s:%s" % (kind, path.split(".")[-1].split("[")[0]),
                                    {"path": path, "got": g, "want": w, "format": resp[0]})
        opts = [k for k in cmd.facade_opt]
        given = [k for k in opts if isinstance(a, dict) and k in a]
        nt = bool(given) and len(given) < len(opts) and (resp is None or any(written.get("bytes", b"")))
        cl = ["resp_" + (resp[0] if resp else "none")]
        return nt, cl
    return check


# ---------------------------------------------------------------------------------------
# every subset of the optional keywords (minimal values), and the documented names
# ---------------------------------------------------------------------------------------
OPT_VALUES = {"alloclen": 64, "alloc_len": 64, "blocksize": 512, "extra_tl": 1, "data": None}


def subset_cases(cmd):
    if cmd.name in ("persistentreserveout",) or cmd.name.startswith(("extendedcopy", "modeselect")):
        return
    base = gen.minimal(cmd)
    opts = list(cmd.facade_opt)
    for r in range(len(opts) + 1):
        for sub in itertools.combinations(opts, r):
            a = dict(base)
            for k in opts:
                a.pop(k, None)
            for k in sub:
                a[k] = OPT_VALUES.get(k, 1)
            if cmd.name.startswith("atapassthrough"):
                a.update(protocal=4, t_length=2, byte_block=1, t_dir=1, t_type=0, off_line=0, fetures=0, count=1, lba=0,
                         command=0xEC)
            if "element_type" in a:
                a["element_type"] = 2
            if cmd.name == "readcd" and "est" not in a:
                a.pop("mcsb", None)
            yield {"a": a, "resp": None}


def documented_kwargs(method):
    doc = inspect.getdoc(method) or ""
    if ":param kwargs:" not in doc:
        return []
    part = doc.split(":param kwargs:", 1)[1].split(":return", 1)[0]
    names = []
    for line in part.splitlines():
        m = re.match(r"\s*(?:a dict with key/value pairs)?\s*([A-Za-z_][A-Za-z0-9_]*)\s*=", line)
        if m and m.group(1) not in names:
            names.append(m.group(1))
    return names


def check_documented(cmd, table):
    def check(kw):
        from pyscsi.pyscsi.scsi import SCSI

        a = gen.minimal(cmd)
        for k in cmd.facade_opt:
            a.pop(k, None)
        if cmd.name.startswith("atapassthrough"):
            a.update(protocal=4, t_length=0, byte_block=0, t_dir=1, t_type=0, off_line=0, fetures=0, count=0, lba=0,
                     command=0xEC)
        s, dev = devs.attach(table, blocksize=512)
        args = [a[p] if p in a else cmd.defaults[p] for p in cmd.fpos]
        val = OPT_VALUES.get(kw, 1)
        try:
            getattr(s, cmd.facade)(*args, **{kw: val})
        except TypeError as e:
            expect(len(dev.calls) > 0, "mismatch:documented_keyword_rejected", keyword=kw, error=repr(e)[:160])
        except Exception as e:  # noqa  decode of the zero buffer may fail: not judged here
            expect(len(dev.calls) == 1, "exc:%s@documented_keyword" % type(e).__name__, keyword=kw, error=repr(e)[:160])
        expect(len(dev.calls) == 1, "mismatch:execute_count", n=len(dev.calls), keyword=kw)
        # ... and reaches the CDB
        ctor_name = kw
        if ctor_name in cmd.fmap and cmd.fmap[ctor_name]:
            c01.judge(cmd, table, dev.calls[0]["cdb"], dict(a, **{kw: val}))
        return True, ("documented_kw",)
    return check


FAULTS = {"TypeError": TypeError, "OSError": OSError, "ValueError": ValueError, "RuntimeError": RuntimeError,
          "KeyError": KeyError, "AttributeError": AttributeError, "IndexError": IndexError}


def with_variant(strategy):
    # one case in eight: the device fails (raises) after it has taken the command
    fault = st.one_of(st.none(), st.none(), st.none(), st.none(), st.none(), st.none(), st.none(),
                      st.sampled_from(sorted(FAULTS)))
    return st.tuples(strategy, st.integers(0, 2), fault).map(
        lambda t: dict(t[0], devvariant=t[1], **({"fault": t[2]} if t[2] else {})))


def run(ctx):
    from pyscsi.pyscsi.scsi import SCSI

    n = ctx.n(30 * 8, 1500 * 16)
    i = 0
    for cmd in facade_cmds():
        for table in cmd.tables():
            subject = "%s@%s" % (cmd.name, table)
            common.search(ctx, subject, with_variant(case_for(cmd)), make_check(cmd, table), n)
            if table == cmd.tables()[0] or ctx.thorough:
                for case in subset_cases(cmd):
                    i += 1
                    if ctx.mine(i):
                        common.run_one(ctx, subject + ":subsets", case, make_check(cmd, table))
                for kw in documented_kwargs(getattr(SCSI, cmd.facade)):
                    i += 1
                    if ctx.mine(i):
                        common.run_one(ctx, subject + ":documented", kw, check_documented(cmd, table))
    ctx.exhaustive_parts.append("every subset of each method's optional keywords (minimal values); every keyword name documented in the facade docstrings")


def replay(ctx, subject, case):
    name, _, mode = subject.partition(":")
    cname, table = name.split("@")
    cmd = cmds.BY_NAME[cname]
    if mode == "documented":
        check_documented(cmd, table)(case)
    else:
        if case.get("resp") is not None:
            case = dict(case, resp=tuple(case["resp"]))
        make_check(cmd, table)(case)


def floors(tier, classes, subjects, evaluations, distinct):
    out = []
    if not classes.get("documented_kw"):
        out.append("no documented keyword was tried")
    for c in ("resp_inquiry_std", "resp_vpd_83", "resp_mode10", "resp_readcd", "resp_readelementstatus", "resp_raw"):
        if not classes.get(c):
            out.append("class %s never generated" % c)
    return out
