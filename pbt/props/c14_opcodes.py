"""C14 - operation codes, service actions and status codes are the T10 assignments.

Complete enumeration (the degenerate complete generator): 5 tables x every entry with its
service-action table, SCSI_STATUS, the legacy enums, and all 256 opcode values through the
CDB-length rule.  Oracle: pbt.stdspec.opcodes (independent transcription of T10 op-num)."""
from pbt import common
from pbt.common import Violation, expect, lib
from pbt.stdspec import opcodes as T10

ID = "C14"
LEVEL = "exploration"
EXHAUSTIVE = True
SHARDS = {"quick": 1, "thorough": 1}
TECHNIQUE = "exhaustive enumeration of the finite table space against an independent T10 transcription (differential oracle)"
RULE = (
    "every (table, name), (table, name, service action), status name, legacy-enum name and every "
    "opcode value 0..255 is one case (all distinct by construction); non-trivial = the value is "
    "compared against the independent T10 model (name known to stdspec.opcodes) or is an opcode "
    "value judged by the SAM group-code length rule; names unknown to the model are only "
    "checked for cross-table consistency and counted under classes['unverified_name']"
)
ASSUMPTIONS = [
    "stdspec/opcodes.py is a correct transcription of T10 op-num / SPC-4 / SBC-3 / SSC-4 / SMC-3 / MMC-6 for the names it lists",
    "names not in the model are not judged against T10 (only for equal-name-equal-value consistency)",
]

TABLE_NAMES = ("spc", "sbc", "ssc", "smc", "mmc")


def setup(ctx):
    common.import_pyscsi()


def _tables():
    import pyscsi.pyscsi.scsi_enum_command as ec

    return ec, {t: getattr(ec, t) for t in TABLE_NAMES}


def check_case(case):
    ec, tables = _tables()
    from pyscsi.pyscsi.scsi_command import SCSICommand
    from pyscsi.pyscsi.scsi_opcode import OpCode

    k = case["kind"]
    if k == "opcode":
        t, name = case["table"], case["name"]
        with lib("lookup"):
            op = getattr(tables[t], name)
            val = op.value
        expect(isinstance(val, int) and not isinstance(val, bool) and 0 <= val <= 0xFF,
               "mismatch:opcode_not_a_byte", table=t, name=name, value=repr(val))
        # the table finds the entry again under a name that carries this very object (entries that share a
        # code byte - MAINTENANCE_IN / SMC_OPCODE_A3, the 9Eh family - have service-action tables of their own)
        with lib("reverse lookup"):
            back = tables[t][op]
        expect(isinstance(back, str) and back in tables[t].keys and getattr(tables[t], back) is op,
               "mismatch:reverse_lookup_of_table_entry", table=t, name=name, back=back)
        # whatever the entry is called, the CDB length derived from it (the library's own object with its own
        # service-action table, e.g. sbc.SBC_OPCODE_7F) follows the group of its value, or it is refused
        _check_len(SCSICommand, op, T10.cdb_length(val), name)
        try:
            c_ = SCSICommand(op, 0, 0)
        except Exception as e:  # noqa
            expect(T10.cdb_length(val) is None and isinstance(e, SCSICommand.OpcodeException),
                   "mismatch:ctor_refused_named_opcode" if T10.cdb_length(val) else "exc:%s@ctor" % type(e).__name__,
                   table=t, name=name, error=repr(e)[:160])
        else:
            expect(T10.cdb_length(val) == len(c_.cdb), "mismatch:ctor_cdb_length_of_named_opcode", table=t, name=name,
                   length=len(c_.cdb), want=T10.cdb_length(val))
        model = T10.TABLES[t]
        if name in model:
            expect(val == model[name], "mismatch:opcode_value", table=t, name=name,
                   library=val, t10=model[name])
            # the CDB length derived from a named opcode is the one its group prescribes
            want = T10.cdb_length(model[name])
            _check_len(SCSICommand, op, want, name)
            _cross(tables, t, name, val)
            # a command that *is* an operation code plus a service action (READ LONG(16) = 9Eh/11h,
            # READ MEDIA SERIAL NUMBER = ABh/01h ...) exposes that service action with its T10 value
            own = T10.SERVICE_ACTIONS.get(model[name], {})
            if name in own:
                with lib("service action of the command itself"):
                    keys = list(op.serviceaction.keys)
                expect(name in keys and getattr(op.serviceaction, name) == own[name], "mismatch:own_service_action_missing",
                       table=t, name=name, exposed=sorted(keys)[:6], want=own[name])
                for sa in keys:
                    if sa in T10.ALL_SERVICE_ACTIONS:
                        expect(sa in own, "mismatch:foreign_service_action_in_command_table", table=t, name=name, sa=sa)
            return True, ("t10_name",)
        _cross(tables, t, name, val)
        if "_OPCODE_" in name:
            # catch-all entries name their own value (e.g. SBC_OPCODE_9E)
            expect("%02X" % val == name.rsplit("_", 1)[1], "mismatch:opcode_value", table=t,
                   name=name, library=val)
            return True, ("self_named",)
        return False, ("unverified_name",)
    if k == "unlisted":
        # a standard name the table does not list: either it is not offered there, or - if the
        # table answers anyway - the value is the T10 value of that name
        t, name = case["table"], case["name"]
        try:
            val = getattr(tables[t], name).value
        except AttributeError:
            return True, ("unlisted_not_offered",)
        except Exception as e:  # noqa
            raise Violation("exc:%s@lookup_unlisted" % type(e).__name__, {"table": t, "name": name})
        want = {T10.TABLES[x][name] for x in T10.TABLES if name in T10.TABLES[x]}
        expect(val in want, "mismatch:unlisted_name_resolves_to_wrong_value", table=t, name=name, got=val, t10=sorted(want))
        return True, ("unlisted_resolved",)
    if k == "sa":
        t, name, sa = case["table"], case["name"], case["sa"]
        with lib("lookup"):
            op = getattr(tables[t], name)
            val = getattr(op.serviceaction, sa)
        expect(isinstance(val, int) and 0 <= val <= 0xFFFF, "mismatch:sa_not_int", name=name, sa=sa)
        for t2, tab2 in tables.items():
            if name in tab2.keys:
                op2 = getattr(tab2, name)
                if sa in op2.serviceaction.keys:
                    v2 = getattr(op2.serviceaction, sa)
                    expect(v2 == val, "mismatch:sa_differs_between_tables", name=name, sa=sa,
                           tables=[t, t2], values=[val, v2])
        own = T10.SERVICE_ACTIONS.get(op.value, {})
        if sa in own:
            expect(val == own[sa], "mismatch:sa_value", table=t, name=name, sa=sa, library=val,
                   t10=own[sa])
            return True, ("t10_sa",)
        if sa in T10.ALL_SERVICE_ACTIONS:
            expect(val in T10.ALL_SERVICE_ACTIONS[sa], "mismatch:sa_value", table=t, name=name,
                   sa=sa, library=val, t10=sorted(T10.ALL_SERVICE_ACTIONS[sa]))
            return True, ("t10_sa_shared_table",)
        return False, ("unverified_sa",)
    if k == "status":
        name = case["name"]
        with lib("lookup"):
            val = getattr(ec.SCSI_STATUS, name)
        if name in T10.STATUS:
            expect(val == T10.STATUS[name], "mismatch:status_value", name=name, library=val,
                   t10=T10.STATUS[name])
            with lib("reverse"):
                back = ec.SCSI_STATUS[val]
            expect(back == name, "mismatch:status_reverse", name=name, back=back)
            return True, ("t10_status",)
        return False, ("unverified_status",)
    if k == "legacy":
        enum, name = case["enum"], case["name"]
        with lib("lookup"):
            val = getattr(getattr(ec, enum), name)
        if enum == "OPCODE":
            model = dict(T10.SBC)
            model.update(T10.SMC)
            model["SERVICE_ACTION_IN"] = 0x9E
        else:
            model = T10.SERVICE_ACTIONS[0x9E]
        if name in model:
            expect(val == model[name], "mismatch:legacy_value", enum=enum, name=name, library=val,
                   t10=model[name])
            return True, ("t10_legacy",)
        return False, ("unverified_name",)
    if k == "length":
        v = case["value"]
        op = OpCode("x%02x" % v, v, {})
        _check_len(SCSICommand, op, T10.cdb_length(v), "value %02Xh" % v)
        # an OpCode object whose value was assigned afterwards (the documented setter), coming from another group
        for start in (0x00, 0x28, 0x88, 0xA0, 0x7F):
            op_set = OpCode("x", start, {})
            op_set.value = v
            _check_len(SCSICommand, op_set, T10.cdb_length(v), "value %02Xh assigned to an OpCode created as %02Xh" % (v, start))
        # and through a real constructor
        from pyscsi.pyscsi.scsi_cdb_testunitready import TestUnitReady

        want = T10.cdb_length(v)
        try:
            cmd = TestUnitReady(op)
        except Exception as e:  # noqa
            expect(want is None and isinstance(e, SCSICommand.OpcodeException),
                   "mismatch:ctor_refused_fixed_length_opcode" if want else "exc:%s@ctor" % type(e).__name__,
                   value=v, error=repr(e))
        else:
            expect(want is not None, "mismatch:ctor_accepted_opcode_without_fixed_length", value=v,
                   length=len(cmd.cdb))
            expect(len(cmd.cdb) == want and cmd.cdb[0] == v, "mismatch:ctor_cdb_length", value=v,
                   length=len(cmd.cdb), want=want)
        # ... and when an existing command object encodes that operation code (build_cdb)
        tur = TestUnitReady(OpCode("TEST_UNIT_READY", 0x00, {}))
        try:
            b = tur.build_cdb(opcode=v)
        except Exception as e:  # noqa
            expect(want is None and isinstance(e, SCSICommand.OpcodeException),
                   "mismatch:build_cdb_refused_fixed_length_opcode" if want else "exc:%s@build_cdb" % type(e).__name__,
                   value=v, error=repr(e)[:160])
        else:
            expect(want is not None, "mismatch:build_cdb_accepted_opcode_without_fixed_length", value=v, length=len(b))
            expect(len(b) == want and b[0] == v, "mismatch:build_cdb_length", value=v, length=len(b), want=want)
        # ... and when the command object's opcode property was replaced first (the documented setter): the
        # length follows the operation code being encoded, not the buffer the object happens to hold
        tur2 = TestUnitReady(OpCode("TEST_UNIT_READY", 0x00, {}))
        tur2.opcode = op
        try:
            b = tur2.build_cdb(opcode=tur2.opcode.value)
        except Exception as e:  # noqa
            expect(want is None and isinstance(e, SCSICommand.OpcodeException),
                   "mismatch:build_cdb_after_opcode_change_refused_fixed_length_opcode" if want else "exc:%s@build_cdb" % type(e).__name__,
                   value=v, error=repr(e)[:160])
        else:
            expect(want is not None, "mismatch:build_cdb_after_opcode_change_accepted_opcode_without_fixed_length", value=v,
                   length=len(b))
            expect(len(b) == want and b[0] == v, "mismatch:build_cdb_length_after_opcode_change", value=v, length=len(b), want=want)
        # ... and through the class-level encoder of classes whose own layout does not describe the opcode
        # byte (the base class, a caller's subclass that lists only its own fields): the length still follows
        # the operation code that was asked for
        class OwnFields(SCSICommand):
            _cdb_bits = {"flag": [0x01, 1]}

        for cls_ in (SCSICommand, OwnFields):
            try:
                b = cls_.marshall_cdb({"opcode": v})
            except Exception as e:  # noqa
                expect(want is None and isinstance(e, SCSICommand.OpcodeException),
                       "mismatch:marshall_cdb_refused_fixed_length_opcode" if want else "exc:%s@marshall_cdb" % type(e).__name__,
                       value=v, cls=cls_.__name__, error=repr(e)[:160])
            else:
                expect(want is not None, "mismatch:marshall_cdb_accepted_opcode_without_fixed_length", value=v,
                       cls=cls_.__name__, length=len(b))
                expect(len(b) == want, "mismatch:marshall_cdb_length", value=v, cls=cls_.__name__, length=len(b), want=want)
        return True, ("length_rule",)
    raise common.HarnessError("bad case " + repr(case))


def _cross(tables, t, name, val):
    # equal names have equal values in every table that lists them
    for t2, tab2 in tables.items():
        if name in tab2.keys:
            v2 = getattr(tab2, name).value
            expect(v2 == val, "mismatch:opcode_differs_between_tables", name=name,
                   tables=[t, t2], values=[val, v2])


def _check_len(SCSICommand, op, want, what):
    try:
        cdb = SCSICommand.init_cdb(op)
    except Exception as e:  # noqa
        expect(isinstance(e, SCSICommand.OpcodeException), "exc:%s@init_cdb" % type(e).__name__,
               what=what, error=repr(e))
        expect(want is None, "mismatch:refused_fixed_length_opcode", what=what, want=want)
        return
    expect(want is not None, "mismatch:accepted_opcode_without_fixed_length", what=what,
           length=len(cdb))
    expect(len(cdb) == want, "mismatch:cdb_length", what=what, length=len(cdb), want=want)
    expect(not any(cdb), "mismatch:init_cdb_not_zeroed", what=what)


def cases():
    ec, tables = _tables()
    for t in TABLE_NAMES:
        for name in sorted(tables[t].keys):
            yield "table:" + t, {"kind": "opcode", "table": t, "name": name}
            op = getattr(tables[t], name)
            for sa in sorted(op.serviceaction.keys):
                yield "table:" + t, {"kind": "sa", "table": t, "name": name, "sa": sa}
    allnames = sorted({n for x in T10.TABLES.values() for n in x})
    for t in TABLE_NAMES:
        listed = set(tables[t].keys)
        for name in allnames:
            if name not in listed:
                yield "table:" + t, {"kind": "unlisted", "table": t, "name": name}
    for name in sorted(ec.SCSI_STATUS.keys):
        yield "status", {"kind": "status", "name": name}
    for enum in ("OPCODE", "SERVICE_ACTION_IN"):
        for name in sorted(getattr(ec, enum).keys):
            yield "legacy", {"kind": "legacy", "enum": enum, "name": name}
    for v in range(256):
        yield "length_rule", {"kind": "length", "value": v}


def run(ctx):
    n = 0
    for subject, case in cases():
        common.run_one(ctx, subject, case, check_case)
        n += 1
    ec, tables = _tables()
    ctx.extra["table_sizes"] = {t: len(tables[t].keys) for t in TABLE_NAMES}
    ctx.exhaustive_parts.append("all %d enumerated cases (tables, service actions, statuses, legacy enums, 256 opcode values)" % n)


def replay(ctx, subject, case):
    check_case(case)


def floors(tier, classes, subjects, evaluations, distinct):
    out = []
    if classes.get("t10_name", 0) < 200:
        out.append("fewer than 200 table entries matched a T10 name (%d)" % classes.get("t10_name", 0))
    if classes.get("length_rule", 0) != 256:
        out.append("length rule not run for all 256 opcodes")
    return out
