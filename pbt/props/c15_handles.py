"""C15 - commands never go through a stale device handle; handles are released.

Fault/event injection on a real SCSIDevice over the sgio stand-in whose device node is a real
file under /dev/shm: histories of execute / replug / unplug / plug / armed close failure / armed re-open failure /
CHECK CONDITION, ended by close(), with-exit (normal or by exception) or the facade's with.
Oracle: a file-system model (which inode is at the path now, read independently with os.stat)
plus the log of every handle ever opened."""
import os

from hypothesis import strategies as st

from pbt import common, standins, transports
from pbt.common import Violation, expect
from pbt.standins import sgio as sgio_mod
from pbt.stdspec import responses as R

ID = "C15"
LEVEL = "fault_enumeration"
EXHAUSTIVE = False
SHARDS = {"quick": 4, "thorough": 16}
TECHNIQUE = "event/fault injection histories (execute, replug, unplug, plug, armed close failure, CHECK CONDITION; four ways of ending) on a real SCSIDevice with a real node file; file-system + handle-log reference model; all short event sequences enumerated in thorough"
RULE = (
    "one case = (detect_replugged, read_write, buffering, how the history ends) + <= 20 events; the node is a real "
    "file under /dev/shm whose inode really changes on replug. Non-trivial = a replug or unplug between two "
    "executes, or an armed close failure that fires; distinct = distinct canonical JSON. iSCSI histories check "
    "connect/disconnect exactly once per context."
)
ASSUMPTIONS = [
    "/dev/shm is a writable tmpfs whose files get a new inode when unlinked and re-created while the old one is still open",
    "close failure = the descriptor is released and close() then raises OSError (injected through an open() wrapper placed in the module namespace of pyscsi.pyscsi.scsi_device)",
    "re-open failure (the next open() raises OSError once) is an extra injected fault beyond the property's list: the only demand is the property's own - whatever reaches the binding goes through an open handle to the current node",
    "using a device after close() is outside the property (histories end with the release)",
    "a failing close of a stale handle may surface to the caller; the command of that step need not be sent, but the next one must go through a fresh handle",
]

HANDLES = []
ARMED = [False]
ARMED_OPEN = [False]
_REAL_OPEN = open
_N = [0]


class Handle(object):
    """thin proxy around the real file object so that close() can be made to fail after
    releasing the descriptor, and so that every handle ever opened is on record."""

    def __init__(self, f, path):
        self._f = f
        self.name = f.name
        self.path = path
        self.ino = os.fstat(f.fileno()).st_ino
        self.close_calls = 0
        self.used_after_close = 0
        HANDLES.append(self)

    @property
    def closed(self):
        return self._f.closed

    def fileno(self):
        return self._f.fileno()

    def close(self):
        self.close_calls += 1
        self._f.close()
        if ARMED[0]:
            ARMED[0] = False
            raise OSError(5, "injected close failure")

    def __getattr__(self, k):
        return getattr(self._f, k)


def open_wrapper(path, mode="r", buffering=-1, *a, **kw):
    if ARMED_OPEN[0]:
        ARMED_OPEN[0] = False
        raise OSError(16, "injected open failure (device busy)")
    return Handle(_REAL_OPEN(path, mode, buffering, *a, **kw), path)


def setup(ctx):
    common.import_pyscsi()
    import pyscsi.pyscsi.scsi_device as sd

    sd.open = open_wrapper


@st.composite
def history(draw):
    ops = []
    n = draw(st.integers(1, 20))
    for _ in range(n):
        k = draw(st.sampled_from(["exec", "exec", "exec", "exec_cc", "replug", "replug", "unplug", "plug", "arm", "arm_open"]))
        if k.startswith("exec"):
            ops.append((k, draw(st.sampled_from(["direct", "facade"]))))
        else:
            ops.append((k,))
    return {"symlink": draw(st.integers(0, 3)) == 0,
            "detect": draw(st.booleans()), "rw": draw(st.booleans()), "buffering": draw(st.sampled_from([-1, 0])),
            "end": draw(st.sampled_from(["close", "with", "with_exc", "facade_with", "close_armed", "with_oserror",
                                         "facade_with_exc", "facade_with_oserror", "with_fnf", "facade_with_fnf"])), "ops": ops}


class Boom(Exception):
    pass


class BoomOS(OSError):
    """an exception of the OSError family leaving a with block (what an unplugged device raises)"""


BOOMS = {"with_exc": Boom, "with_oserror": BoomOS, "facade_with_exc": Boom, "facade_with_oserror": BoomOS,
         # exactly what an unplugged device raises
         "with_fnf": FileNotFoundError, "facade_with_fnf": FileNotFoundError}


def run_history(case):
    from pyscsi.pyscsi.scsi import SCSI
    from pyscsi.pyscsi.scsi_cdb_testunitready import TestUnitReady
    from pyscsi.pyscsi.scsi_device import SCSIDevice
    from pyscsi.pyscsi.scsi_enum_command import spc

    del HANDLES[:]
    ARMED[0] = False
    ARMED_OPEN[0] = False
    _N[0] += 1
    path = transports.node_path("c15-%d" % (_N[0] % 8))
    if os.path.lexists(path):
        os.unlink(path)
    node = path
    if case.get("symlink"):
        # the device path is an alias (like /dev/disk/by-id/...): replug/unplug act on the node behind it;
        # "the node that currently exists at the device path" is what the path resolves to
        node = transports.node_path("c15-%d-node" % (_N[0] % 8))
        if os.path.lexists(node):
            os.unlink(node)
        transports.make_node(node)
        os.symlink(node, path)
    else:
        transports.make_node(path)
    queue = []
    sgio_mod.routes[path] = lambda cdb, dout, din: queue.pop(0) if queue else (0, None)
    state = {"nt": False, "pending_fresh": False, "events_since_exec": set(), "execs": 0, "fired": 0}
    cls = []

    def sgio_calls(mark):
        return [e for e in standins.LOG[mark:] if e[0] == "sgio.execute"]

    def do_exec(dev, s, op):
        kind, via = op
        status = 2 if kind == "exec_cc" else 0
        queue[:] = [(status, bytes(R.sense_fixed(6, 0x29, 0)) if status else None)]
        present = os.path.exists(path)
        cur = os.stat(path).st_ino if present else None
        mark = len(standins.LOG)
        armed_before = ARMED[0]
        armed_open_before = ARMED_OPEN[0]
        n_handles = len(HANDLES)
        first = HANDLES[0]
        try:
            if via == "facade" and s is not None:
                s.testunitready()
            else:
                dev.execute(TestUnitReady(spc.TEST_UNIT_READY))
            outcome, exc = "return", None
        except Exception as e:  # noqa
            outcome, exc = "raise", e
        calls = sgio_calls(mark)
        fired = armed_before and not ARMED[0]
        fired_open = armed_open_before and not ARMED_OPEN[0]
        if fired or fired_open:
            state["fired"] += 1
            state["nt"] = True
        if fired and present and case["detect"] and not fired_open:
            # closing the stale handle failed: the fresh handle must be opened in this very step
            expect(len(HANDLES) == n_handles + 1 and HANDLES[-1].ino == cur and not HANDLES[-1].closed,
                   "mismatch:no_fresh_handle_after_failed_close", opened=len(HANDLES) - n_handles)
        expect(len(calls) <= 1, "mismatch:command_sent_twice", n=len(calls))
        if case["detect"]:
            if not present:
                expect(outcome == "raise", "mismatch:vanished_node_not_reported", op=op)
                expect(not calls, "mismatch:command_sent_although_node_vanished", op=op)
            else:
                if not calls:
                    expect(fired or fired_open, "mismatch:command_not_sent", op=op, error=repr(exc)[:200])
                    state["pending_fresh"] = True
                else:
                    fid = calls[0][7]
                    expect(isinstance(fid, Handle), "mismatch:foreign_handle", got=type(fid).__name__)
                    expect(not calls[0][2], "mismatch:command_sent_through_closed_handle", op=op)
                    expect(fid.ino == cur, "mismatch:command_sent_through_stale_handle", op=op, handle_inode=fid.ino,
                           node_inode=cur, events=sorted(state["events_since_exec"]))
                    for h in HANDLES:
                        if h is not fid:
                            expect(h.closed, "mismatch:superseded_handle_left_open", inode=h.ino, current=cur)
                    state["pending_fresh"] = False
                    if status == 0:
                        expect(outcome == "return" or fired or fired_open, "exc:%s@execute" % type(exc).__name__, error=repr(exc)[:200])
                    else:
                        expect(outcome == "raise", "mismatch:check_condition_not_raised")
        else:
            expect(len(calls) == 1, "mismatch:command_not_sent_with_detection_off", op=op, error=repr(exc)[:200])
            fid = calls[0][7]
            expect(fid is first and not calls[0][2], "mismatch:original_handle_not_kept", op=op)
            expect(len(HANDLES) == 1, "mismatch:reopened_with_detection_off", n=len(HANDLES))
        if state["execs"] and state["events_since_exec"] & {"replug", "unplug"}:
            state["nt"] = True
        state["execs"] += 1
        state["events_since_exec"] = set()

    def body(dev, s):
        for op in case["ops"]:
            k = op[0]
            if k.startswith("exec"):
                do_exec(dev, s, op)
            elif k == "replug":
                if os.path.exists(node):
                    os.unlink(node)
                transports.make_node(node)
                state["events_since_exec"].add("replug")
                cls.append("replug")
            elif k == "unplug":
                if os.path.exists(node):
                    os.unlink(node)
                    state["events_since_exec"].add("unplug")
                    cls.append("unplug")
            elif k == "plug":
                if not os.path.exists(node):
                    transports.make_node(node)
                    state["events_since_exec"].add("replug")
            elif k == "arm":
                ARMED[0] = True
                cls.append("armed")
            elif k == "arm_open":
                ARMED_OPEN[0] = True
                cls.append("armed_open")

    end = case["end"]
    dev = None
    try:
        try:
            dev = SCSIDevice(path, case["rw"], detect_replugged=case["detect"], buffering=case["buffering"])
        except Exception as e:  # noqa
            raise Violation("exc:%s@open" % type(e).__name__, {"error": repr(e)[:200]})
        expect(len(HANDLES) == 1 and HANDLES[0].path == path, "mismatch:open_calls", n=len(HANDLES))
        want_mode = "rb+" if case["rw"] else "rb"
        expect(HANDLES[0]._f.mode == want_mode, "mismatch:open_mode", got=HANDLES[0]._f.mode, want=want_mode)
        dev.opcodes = spc
        final_exc = None
        if end in ("close", "close_armed"):
            s = SCSI(None)
            s.device = dev
            body(dev, s)
            ARMED_OPEN[0] = False
            if end == "close_armed":
                ARMED[0] = True
            try:
                dev.close()
            except OSError as e:
                final_exc = e
        elif end == "with":
            try:
                with dev as d:
                    expect(d is dev, "mismatch:enter_returns_other_object")
                    s = SCSI(None)
                    s.device = dev
                    body(dev, s)
            except OSError as e:
                final_exc = e
        elif end in BOOMS:
            # the block is left by an exception (an ordinary one, or one of the OSError family): it reaches
            # the caller and the handle is released all the same
            s = SCSI(None)
            s.device = dev
            try:
                with (dev if end.startswith("with") else s):
                    body(dev, s)
                    raise BOOMS[end]("leaving the block")
            except (Boom, BoomOS):
                pass
            except FileNotFoundError as e:
                if "leaving the block" not in str(e):
                    final_exc = e
            except OSError as e:
                final_exc = e
            else:
                expect(False, "mismatch:with_block_swallowed_the_exception")
        else:
            s = SCSI(None)
            s.device = dev
            try:
                with s as s2:
                    expect(s2 is s, "mismatch:enter_returns_other_object")
                    body(dev, s)
            except OSError as e:
                final_exc = e
        if final_exc is not None:
            expect(ARMED[0] is False and "injected" in str(final_exc), "exc:OSError@release", error=repr(final_exc)[:200])
        for h in HANDLES:
            expect(h._f.mode == want_mode, "mismatch:reopened_with_another_access_mode", got=h._f.mode, want=want_mode)
            expect(h.closed, "mismatch:handle_leaked_after_release", inode=h.ino, end=end, n=len(HANDLES))
            expect(h.close_calls >= 1, "mismatch:handle_never_closed")
    finally:
        for h in HANDLES:
            try:
                h._f.close()
            except Exception:  # noqa
                pass
        sgio_mod.routes.pop(path, None)
        for x in (path, node):
            if os.path.lexists(x):
                os.unlink(x)
        ARMED[0] = False
        ARMED_OPEN[0] = False
    cls.append("detect_on" if case["detect"] else "detect_off")
    if case.get("symlink"):
        cls.append("symlink_path")
    cls.append("end_" + end)
    return state["nt"], sorted(set(cls))


# ---- iSCSI: connect once, disconnect exactly once -----------------------------------------
@st.composite
def iscsi_history(draw):
    return {"ops": draw(st.lists(st.sampled_from([0, 0, 2, 8]), max_size=8)),
            "end": draw(st.sampled_from(["close", "with", "with_exc", "facade_with"]))}


def run_iscsi(case):
    from pyscsi.pyscsi.scsi import SCSI
    from pyscsi.pyscsi.scsi_cdb_testunitready import TestUnitReady
    from pyscsi.pyscsi.scsi_enum_command import spc

    queue = []
    transports.set_handler(lambda cdb, dout, din: queue.pop(0) if queue else (0, None))
    mark = len(standins.LOG)
    try:
        dev = transports.make_iscsi()

        def body():
            for status in case["ops"]:
                queue[:] = [(status, bytes(R.sense_fixed(6, 0x29, 0)) if status == 2 else None)]
                try:
                    dev.execute(TestUnitReady(spc.TEST_UNIT_READY))
                except Exception as e:  # noqa
                    expect(status != 0, "exc:%s@execute" % type(e).__name__)
                disc = [e for e in standins.LOG[mark:] if e[0] == "iscsi.disconnect"]
                expect(not disc, "mismatch:disconnected_while_in_use")

        end = case["end"]
        if end == "close":
            body()
            dev.close()
        elif end == "with":
            with dev:
                body()
        elif end == "with_exc":
            try:
                with dev:
                    body()
                    raise Boom()
            except Boom:
                pass
        else:
            s = SCSI(None)
            s.device = dev
            with s:
                body()
        ev = standins.LOG[mark:]
        conn = [e for e in ev if e[0] == "iscsi.connect"]
        disc = [e for e in ev if e[0] == "iscsi.disconnect"]
        expect(len(conn) == 1, "mismatch:connect_count", n=len(conn))
        expect(len(disc) == 1, "mismatch:disconnect_count", n=len(disc), end=end)
    finally:
        transports.set_handler(None)
        del standins.LOG[:]
    return len(case["ops"]) >= 2, ("iscsi_end_" + case["end"],)


def short_sequences():
    """every sequence of <= 4 events from the event alphabet, both detection settings, 3 endings."""
    import itertools

    alpha = [("exec", "direct"), ("exec_cc", "direct"), ("replug",), ("unplug",), ("plug",), ("arm",)]
    for n in range(1, 5):
        for seq in itertools.product(alpha, repeat=n):
            if not any(o[0].startswith("exec") for o in seq):
                continue
            for detect in (True, False):
                for end in ("close", "with_exc"):
                    yield {"detect": detect, "rw": False, "buffering": -1, "end": end, "ops": list(seq)}


def run(ctx):
    common.search(ctx, "sgio_history", history(), run_history, ctx.n(1600, 40000))
    common.search(ctx, "iscsi_history", iscsi_history(), run_iscsi, ctx.n(200, 4000))
    if ctx.thorough:
        for i, case in enumerate(short_sequences()):
            if ctx.mine(i):
                common.run_one(ctx, "sgio_enumerated", case, run_history)
        ctx.exhaustive_parts.append("every event sequence of length <= 4 containing an execute x detection on/off x {close, with+exception}")


def replay(ctx, subject, case):
    if subject.startswith("sgio"):
        case = dict(case, ops=[tuple(o) for o in case["ops"]])
        run_history(case)
    else:
        run_iscsi(case)


def floors(tier, classes, subjects, evaluations, distinct):
    return ["class %s never generated" % c for c in ("replug", "unplug", "armed", "detect_on", "detect_off", "symlink_path",
                                                      "end_with_exc", "end_facade_with", "iscsi_end_with_exc")
            if not classes.get(c)]
