"""C16 - attaching to a device selects the command set of its peripheral device type.

Complete sweep of 32 device types x 8 qualifiers x 3 device kinds, and generated sequences of
attach / re-attach interleaved with facade commands whose opcode differs between sets.  The
targets sit behind per-device routes of the binding stand-ins, so a command sent to the wrong
device is seen."""
from hypothesis import strategies as st

from pbt import common, devs, transports
from pbt.common import expect, lib
from pbt.standins.target import Target
from pbt.stdspec import cdb as S
from pbt.stdspec import opcodes as T10

ID = "C16"
LEVEL = "exploration"
EXHAUSTIVE = False
SHARDS = {"quick": 4, "thorough": 16}
TECHNIQUE = "exhaustive sweep of device type x qualifier x device kind plus Hypothesis attach/re-attach/command sequences against simulated targets; expected-set table from the property, opcodes from the independent T10 model"
RULE = (
    "sweep: every (peripheral device type 0..31, qualifier 0..7, device kind in {plain object, SCSIDevice, "
    "ISCSIDevice}) is one case; sequences: 1..6 attach/re-attach steps over fresh devices of generated types, "
    "interleaved with facade commands. Non-trivial = a re-attach to a device of a different type class, or a "
    "type >= 0Ah; distinct = distinct canonical JSON"
)
ASSUMPTIONS = [
    "for processor and unrecognised types the property only demands that INQUIRY, TEST UNIT READY and REPORT LUNS are offered at their T10 values; which table is chosen is not constrained",
    "binding stand-ins with per-device routing (pbt/standins)",
    "devices have 36, 96, 164 or 260 bytes of standard INQUIRY data; the facade may be an instance of a Python subclass of SCSI that is constructed detached and attached by calling it; the same device object may be attached again after the unit behind it changed type; a replug of an SG_IO node between attach and command keeps the selection",
]

EXPECT = {0x00: "sbc", 0x04: "sbc", 0x07: "sbc", 0x01: "ssc", 0x05: "mmc", 0x08: "smc"}
KINDS = ["plain", "sgio", "iscsi"]
_N = [0]


def setup(ctx):
    common.import_pyscsi()


def tables():
    import pyscsi.pyscsi.scsi_enum_command as ec

    return {t: getattr(ec, t) for t in ("spc", "sbc", "ssc", "smc", "mmc")}


STD_LENS = [96, 36, 164, 260]  # bytes of standard INQUIRY data the device has (ADDITIONAL LENGTH 91, 31, 159, 255)


def make_device(kind, devtype, qual, salt=0):
    """-> (device, target, seen) ; seen() lists the CDBs that reached this device's target."""
    tgt = Target(512, 1 << 20, devtype=devtype, qualifier=qual,
                 identity={"std_len": STD_LENS[(devtype + qual + salt) % 4]})
    _N[0] += 1
    if kind == "plain":
        def responder(dev, cmd, rec):
            st_, sense = tgt.handle(cmd.cdb, cmd.dataout, cmd.datain)
            if st_ != 0:
                raise RuntimeError("device object reports status %02Xh" % st_)
        d = devs.RecDevice(devtype, responder=responder, qualifier=qual)
    elif kind == "sgio":
        tgt.node = transports.node_path("c16-%d" % (_N[0] % 64))
        d = transports.make_sgio(tgt.node, handler=tgt.handle)
    else:
        d = transports.make_iscsi("iscsi://10.0.0.%d/iqn.verif:t%d/0" % (_N[0] % 250, _N[0]), handler=tgt.handle)
    return d, tgt


def judge_attached(dev, tgt, devtype, nlog_before=0):
    log = tgt.log[nlog_before:]
    expect(len(log) == 1, "mismatch:attach_command_count", n=len(log), names=[r.get("name") for r in log])
    r = log[0]
    expect(r.get("name") == "INQUIRY" and not S.audit("INQUIRY", r["cdb"]) and r["fields"]["EVPD"] == 0
           and r["fields"]["PAGE CODE"] == 0, "mismatch:attach_not_a_standard_inquiry", cdb=r["cdb"])
    expect(not tgt.protocol_errors, "mismatch:attach_transfer", errors=tgt.protocol_errors[:1])
    with lib("devicetype"):
        got = dev.devicetype
    expect(got == devtype, "mismatch:devicetype", got=got, want=devtype)
    tabs = tables()
    with lib("opcodes"):
        ops = dev.opcodes
    if devtype in EXPECT:
        expect(ops is tabs[EXPECT[devtype]], "mismatch:command_set", devtype=devtype, want=EXPECT[devtype],
               got=[k for k, v in tabs.items() if v is ops] or repr(ops)[:60])
        return EXPECT[devtype]
    for name in ("INQUIRY", "TEST_UNIT_READY", "REPORT_LUNS"):
        with lib("primary command lookup"):
            v = getattr(ops, name).value
        expect(v == T10.SPC[name], "mismatch:primary_command_missing_or_wrong", devtype=devtype, name=name, got=v)
    names = [k for k, v in tabs.items() if v is ops]
    return names[0] if names else None


def check_sweep(case):
    from pyscsi.pyscsi.scsi import SCSI

    devtype, qual, kind = case
    dev, tgt = make_device(kind, devtype, qual)
    try:
        with lib("attach"):
            SCSI(dev)
        judge_attached(dev, tgt, devtype)
    finally:
        dev.close() if kind != "plain" else None
        transports.clear_routes()
    return devtype >= 0x0A, ("sweep_" + kind,)


CMDS = {  # facade command -> (sets that define it, std record, call)
    "inquiry": (("spc", "sbc", "ssc", "smc", "mmc"), "INQUIRY", lambda s: s.inquiry()),
    "testunitready": (("spc", "sbc", "ssc", "smc", "mmc"), "TEST UNIT READY", lambda s: s.testunitready()),
    "modesense10": (("spc", "sbc", "ssc", "smc", "mmc"), "MODE SENSE(10)", None),
    "readcapacity10": (("sbc",), "READ CAPACITY(10)", lambda s: s.readcapacity10()),
    "read10": (("sbc", "mmc"), "READ(10)", lambda s: s.read10(0, 1)),
    "synchronizecache10": (("sbc",), "SYNCHRONIZE CACHE(10)", lambda s: s.synchronizecache10(0, 1)),
}


@st.composite
def sequence(draw):
    steps = []
    if draw(st.integers(0, 3)) == 0:
        # the facade is an instance of a Python subclass that constructs detached and attaches by being
        # called (the pattern of the repository's own tests/mock_device.MockSCSI)
        steps.append(("facade", "detached_subclass"))
    n = draw(st.integers(1, 6))
    types = st.one_of(st.sampled_from(sorted(EXPECT)), st.integers(0, 31), st.sampled_from([0x03, 0x0C, 0x0D, 0x11, 0x1F]))
    for i in range(n):
        steps.append(("attach", draw(types), draw(st.one_of(st.just(0), st.integers(0, 7))), draw(st.sampled_from(KINDS))))
        for _ in range(draw(st.integers(0, 2))):
            steps.append(("cmd", draw(st.sampled_from(sorted(CMDS)))))
        if draw(st.integers(0, 3)) == 0:
            steps.append(("reattach_same_failing", draw(st.sampled_from([0x02, 0x08, 0x18]))))
            steps.append(("cmd", draw(st.sampled_from(sorted(CMDS)))))
        if draw(st.integers(0, 3)) == 0:
            # the device node is replaced (hot-plug: SG_IO re-opens it on the next command): the selection made
            # when attaching stays in force
            steps.append(("replug",))
            steps.append(("cmd", draw(st.sampled_from(sorted(CMDS)))))
        if draw(st.integers(0, 3)) == 0:
            # the same device object is attached again after the unit behind it has changed (another medium
            # changer slot, a re-provisioned LUN): the probe is repeated and decides anew
            steps.append(("reattach_same_changed", draw(types)))
            steps.append(("cmd", draw(st.sampled_from(sorted(CMDS)))))
    return steps


def check_sequence(steps):
    from pyscsi.pyscsi.scsi import SCSI

    s = None
    cur = None
    history = []  # (dev, tgt, devtype, opcodes object at attach time, kind)
    nt = False
    class Detached(SCSI):
        def __init__(self, blocksize=0):
            self.device = None
            self._blocksize = blocksize

    try:
        for step in steps:
            if step[0] == "facade":
                s = Detached(512)
                continue
            if step[0] == "attach":
                _, devtype, qual, kind = step
                dev, tgt = make_device(kind, devtype, qual, salt=len(history))
                with lib("attach" if s is None else "re-attach"):
                    if s is None:
                        s = SCSI(dev, 512)
                    else:
                        s(dev)
                setname = judge_attached(dev, tgt, devtype)
                # no leak: the selection equals what a fresh facade selects for a fresh device
                # of the same type (function of the new device's type only)
                rdev, rtgt = make_device("plain", devtype, qual)
                with lib("reference attach"):
                    SCSI(rdev, 512)
                expect(dev.opcodes is rdev.opcodes, "mismatch:selection_depends_on_previous_device", devtype=devtype,
                       previous=[h[2] for h in history],
                       got=[k for k, v in tables().items() if v is dev.opcodes],
                       fresh=[k for k, v in tables().items() if v is rdev.opcodes])
                # earlier devices keep their own selection and saw nothing new
                for d0, t0, ty0, ops0, n0, k0 in history:
                    expect(d0.opcodes is ops0, "mismatch:previous_device_command_set_changed", devtype=ty0)
                    expect(len(t0.log) == n0, "mismatch:command_reached_previous_device", devtype=ty0)
                if history:
                    prev = history[-1]
                    if EXPECT.get(prev[2], "other") != EXPECT.get(devtype, "other"):
                        nt = True
                if devtype >= 0x0A:
                    nt = True
                history.append([dev, tgt, devtype, dev.opcodes, len(tgt.log), kind])
                cur = (dev, tgt, devtype, setname)
            elif step[0] == "replug":
                dev, tgt, devtype, setname = cur
                if getattr(tgt, "node", None):
                    import os

                    ops_before = dev.opcodes
                    os.unlink(tgt.node)
                    transports.make_node(tgt.node)
                    with lib("command after replug"):
                        s.testunitready()
                    expect(dev.opcodes is ops_before, "mismatch:replug_changed_the_command_set", devtype=devtype,
                           got=[k for k, v in tables().items() if v is dev.opcodes])
                    history[-1][4] = len(tgt.log)
            elif step[0] == "reattach_same_changed":
                dev, tgt, devtype, setname = cur
                tgt.devtype = step[1]
                before = len(tgt.log)
                with lib("re-attach the same device object"):
                    s(dev)
                setname = judge_attached(dev, tgt, step[1], nlog_before=before)
                history[-1][2] = step[1]
                history[-1][3] = dev.opcodes
                history[-1][4] = len(tgt.log)
                cur = (dev, tgt, step[1], setname)
                nt = True
            elif step[0] == "reattach_same_failing":
                # probing the current device again fails (CHECK CONDITION / BUSY / RESERVATION CONFLICT on the
                # INQUIRY): the error surfaces and the selection made earlier is still in force
                dev, tgt, devtype, setname = cur
                from pbt.stdspec import responses as R_

                ops_before = dev.opcodes
                tgt.inject.append((step[1], bytes(R_.sense_fixed(6, 0x29, 0)) if step[1] == 2 else None))
                try:
                    s(dev)
                    failed = False
                except Exception:  # noqa
                    failed = True
                if history and history[-1][5] == "sgio" and step[1] != 2:
                    failed = True  # (the SG_IO stand-in reports every non-CHECK-CONDITION failure the same way)
                expect(failed, "mismatch:failed_probe_not_reported", status=step[1])
                expect(dev.opcodes is ops_before, "mismatch:failed_reattach_changed_the_command_set", devtype=devtype,
                       got=[k for k, v in tables().items() if v is dev.opcodes])
                history[-1][4] = len(tgt.log)
            else:
                name = step[1]
                dev, tgt, devtype, setname = cur
                sets, std, call = CMDS[name]
                if devtype in EXPECT:
                    if EXPECT[devtype] not in sets:
                        continue
                elif name not in ("inquiry", "testunitready"):
                    continue
                before = len(tgt.log)
                if name == "modesense10":
                    call = lambda s_: s_.modesense10(0x0A)  # noqa: E731
                try:
                    with lib("facade " + name):
                        call(s)
                except common.Violation:
                    # the simulated target does not implement every command (it answers CHECK
                    # CONDITION or leaves the buffer zeroed): only the opcode that arrived is judged
                    if len(tgt.log) != before + 1:
                        raise
                expect(len(tgt.log) == before + 1, "mismatch:command_did_not_reach_current_device", cmd=name,
                       n=len(tgt.log) - before)
                got = tgt.log[-1]["cdb"][0]
                expect(got == S.CDB[std]["opcode"], "mismatch:opcode_not_from_the_selected_set", cmd=name,
                       devtype=devtype, got=got, want=S.CDB[std]["opcode"])
                history[-1][4] = len(tgt.log)
                for d0, t0, ty0, ops0, n0, k0 in history[:-1]:
                    expect(len(t0.log) == n0, "mismatch:command_reached_previous_device", devtype=ty0)
    finally:
        for h in history:
            if h[5] != "plain":
                try:
                    h[0].close()
                except Exception:  # noqa
                    pass
        transports.clear_routes()
    kinds = sorted({st_[3] for st_ in steps if st_[0] == "attach"})
    return nt, ["seq_" + k for k in kinds] + (["reattach"] if len(history) > 1 else []) + (
        ["failed_reattach"] if any(st_[0] == "reattach_same_failing" for st_ in steps) else []) + (
        ["subclassed_facade"] if any(st_[0] == "facade" for st_ in steps) else []) + (
        ["reattach_same_changed"] if any(st_[0] == "reattach_same_changed" for st_ in steps) else [])


def run(ctx):
    i = 0
    for devtype in range(32):
        for qual in range(8):
            for kind in KINDS:
                i += 1
                if ctx.mine(i):
                    common.run_one(ctx, "sweep", (devtype, qual, kind), check_sweep)
    ctx.exhaustive_parts.append("32 device types x 8 qualifiers x {plain, SCSIDevice, ISCSIDevice}")
    common.search(ctx, "sequence", sequence(), check_sequence, ctx.n(600, 20000))


def replay(ctx, subject, case):
    if subject == "sweep":
        check_sweep(tuple(case))
    else:
        check_sequence([tuple(x) for x in case])


def floors(tier, classes, subjects, evaluations, distinct):
    out = []
    if classes.get("reattach", 0) < 100:
        out.append("fewer than 100 sequences with a re-attach")
    return out
