"""C17 - invalid requests are refused before anything is sent.

Five invalid-input classes crossed with otherwise valid generated arguments; oracle = the
specific error, zero executes on a recording device, and the nearest valid input is accepted
(so that a refuse-everything change fails too)."""
import copy

from hypothesis import strategies as st

from pbt import cmds, common, devs, gen, paramgen
from pbt.common import Violation, expect, lib

ID = "C17"
LEVEL = "exploration"
EXHAUSTIVE = False
SHARDS = {"quick": 4, "thorough": 16}
TECHNIQUE = "Hypothesis-generated invalid requests (5 classes) with expected-exception oracle, zero-execute audit on a recording device and nearest-valid-input control; all 256 opcodes x all constructors enumerated"
RULE = (
    "one case = (invalid-input class, command/facade method, otherwise valid generated arguments, the "
    "invalid component and where it sits); each case also runs its nearest valid twin. Non-trivial = the "
    "invalid component is not the first thing examined (other non-default arguments present, valid "
    "descriptors precede the bad one) ; distinct = distinct canonical JSON. All 256 opcode values x 42 "
    "constructors are enumerated completely."
)
ASSUMPTIONS = [
    "MissingBlocksizeException / OpcodeException are created per class by a metaclass; the library raises SCSICommand's own (SCSICommand.OpcodeException, SCSICommand.MissingBlocksizeException) whatever the command class, and that is what a caller can catch: checked by name and by isinstance",
    "EXTENDED COPY type codes that the tables list but the library does not implement (NotImplementedError) are not 'unknown' and are outside this property",
]

BLOCK_CMDS = ["read10", "read12", "read16", "write10", "write12", "write16", "writesame10", "writesame16"]


def setup(ctx):
    common.import_pyscsi()


def refused(fn, want, dev=None):
    """fn must raise an exception whose class is named `want`; nothing may reach the device."""
    try:
        obj = fn()
    except Exception as e:  # noqa
        got = type(e).__name__
        expect(got == want, "mismatch:wrong_error", got=got, want=want, error=repr(e)[:200])
        if want in ("MissingBlocksizeException", "OpcodeException"):
            # the error a caller can name: the library raises the base class's exception for every command class
            from pyscsi.pyscsi.scsi_command import SCSICommand

            expect(isinstance(e, getattr(SCSICommand, want)), "mismatch:error_not_catchable_as_SCSICommand_" + want,
                   got="%s.%s" % (type(e).__module__, type(e).__qualname__))
    else:
        expect(False, "mismatch:not_refused", want=want, returned=type(obj).__name__)
    if dev is not None:
        expect(len(dev.calls) == 0, "mismatch:command_sent_before_refusal", n=len(dev.calls))


def accepted(fn, what):
    with lib("valid twin: " + what):
        return fn()


# ---- 1. missing block size -----------------------------------------------------------------
def bs_strategy(cmd):
    return st.tuples(gen.args(cmd), st.sampled_from(["ctor", "facade"]))


def check_blocksize(cmd):
    table = cmd.tables()[0]

    def check(t):
        a, path = t
        a = gen.materialize(a)
        ata = cmd.name.startswith("atapassthrough")
        if ata:
            a.update(byte_block=1, t_type=1)
            if not a["t_length"]:
                a["t_length"] = 1
            a["fetures"] &= 0xFF
            a["count"] &= 0xFF
            had_data = a.pop("data", None) is not None or (a["lba"] & 1)
            bad = dict(a)
            bad.pop("blocksize", None) if path == "facade" else bad.__setitem__("blocksize", 0)
            good = dict(a, blocksize=1)
            if had_data:
                # the refusal does not depend on whether the caller also brought a buffer along
                bad["data"] = bytearray(512)
                tl_ = {1: a["fetures"], 2: a["count"], 3: a.get("extra_tl") or 0}[a["t_length"]]
                good["data"] = bytearray(tl_) if tl_ else None
        else:
            if cmd.name == "writesame16":
                a["ndob"] = 0
            bad = dict(a, blocksize=0)
            good = dict(a, blocksize=1)
            if "data" in a:
                n = 1 if cmd.name.startswith("writesame") else a["tl"]
                good["data"] = bytes(n)
        op = cmd.opcode(table)
        if path == "ctor":
            refused(lambda: cmd.build(op, bad), "MissingBlocksizeException")
            accepted(lambda: cmd.build(op, good), cmd.name)
        else:
            s, dev = devs.attach(table, blocksize=0)
            refused(lambda: cmd.call(s, bad), "MissingBlocksizeException", dev)
            s2, dev2 = devs.attach(table, blocksize=1)
            if ata:
                accepted(lambda: cmd.call(s2, good), cmd.name)
            else:
                accepted(lambda: cmd.call(s2, good), cmd.name)
            expect(len(dev2.calls) == 1, "mismatch:valid_twin_not_sent", n=len(dev2.calls))
        if cmd.name == "writesame16":
            nd = dict(a, blocksize=0, ndob=1, data=None)
            accepted(lambda: cmd.build(op, nd), "writesame16 ndob without block size")
        nz = sum(1 for k, v in a.items() if k not in ("blocksize",) and isinstance(v, int) and v)
        return nz >= 2, ("blocksize", path)
    return check


# ---- 2. opcodes without a fixed CDB length ---------------------------------------------------
def check_opcode(cmd):
    from pbt.stdspec import opcodes as T10

    table = cmd.tables()[0]

    def check(v):
        from pyscsi.pyscsi.scsi_opcode import OpCode

        base = cmd.opcode(table)
        sa = {k: getattr(base.serviceaction, k) for k in base.serviceaction.keys}
        op = OpCode("x%02X" % v, v, sa)
        a = gen.minimal(cmd)
        want = T10.cdb_length(v)
        native = T10.cdb_length(base.value)
        if want is None:
            refused(lambda: cmd.build(op, a), "OpcodeException")
            # ... and on the other ways an operation code reaches a CDB: an existing command asked to
            # encode it, and the class-level encoder
            existing = accepted(lambda: cmd.build(base, a), "native opcode")
            before = bytes(existing.cdb)
            refused(lambda: existing.build_cdb(opcode=v), "OpcodeException")
            refused(lambda: cmd.cls.marshall_cdb({"opcode": v}), "OpcodeException")
            refused(lambda: cmd.cls.init_cdb(op), "OpcodeException")
            expect(bytes(existing.cdb) == before, "mismatch:refused_opcode_altered_existing_cdb")
        elif want == native:
            # nearest valid input: an opcode of the group this class's layout belongs to
            c = accepted(lambda: cmd.build(op, a), "opcode %02Xh" % v)
            expect(len(c.cdb) == want and c.cdb[0] == v, "mismatch:cdb_length_for_opcode", got=len(c.cdb), want=want)
        else:
            return False, ("opcode_other_group_not_judged",)
        return True, ("opcode",)
    return check


# ---- 3. PERSISTENT RESERVE IN service actions ------------------------------------------------
def check_prin(table):
    def check(t):
        sa, alloclen, give = t
        s, dev = devs.attach(table)
        kw = {"alloclen": alloclen} if give else {}
        if sa in (0, 1, 2, 3) and not isinstance(sa, bool):
            def responder(d, cmd, rec):
                if sa == 2 and len(cmd.datain) >= 2:
                    cmd.datain[1] = 8  # REPORT CAPABILITIES: conformant LENGTH
            dev.responder = responder
            c = accepted(lambda: s.persistentreservein(sa, **kw), "service action %r" % (sa,))
            expect(len(dev.calls) == 1 and (dev.calls[0]["cdb"][1] & 0x1F) == sa, "mismatch:prin_sa_sent")
            return False, ("prin_valid",)
        refused(lambda: s.persistentreservein(sa, **kw), "ValueError", dev)
        return give, ("prin_invalid",)
    return check


# ---- 4. EXTENDED COPY -------------------------------------------------------------------------
BAD_KEYS = st.text(alphabet="abcdefghijklmnopqrstuvwxyz_", min_size=1, max_size=12).map(lambda x: "k" + x if x.startswith("_") else x)


@st.composite
def xcopy_bad(draw, spc5):
    a = draw(paramgen.xcopy_args(spc5))
    lst = "cscd_descriptor_list" if spc5 else "target_descriptor_list"
    kind = draw(st.sampled_from(["target_key", "target_type", "target_pdt", "lu_id_type", "segment_key", "segment_type"]))
    pre_t = list(a.get(lst, []))
    pre_s = list(a.get("segment_descriptor_list", []))
    pkey = "cscd_descriptor_parameters" if spc5 else "target_descriptor_parameters"
    if kind.startswith("target") or kind == "lu_id_type":
        d = draw(paramgen.cscd(spc5))
        valid_keys = {"descriptor_type_code", "peripheral_device_type", "lu_id_type",
                      "relative_initiator_port_identifier", pkey, "device_type_specific_parameters"}
        if kind == "target_key":
            elsewhere = sorted((SEG_KEYS(True, 0x02) | SEG_KEYS(False, 0x00) | {"code_set", "association", "designator_type",
                                                                                "pad", "fixed", "disk_block_length"}) - valid_keys)
            k = draw(st.one_of(BAD_KEYS.filter(lambda x: x not in valid_keys), st.sampled_from(elsewhere)))
            d[k] = draw(st.integers(0, 3))
        elif kind == "target_type":
            d["descriptor_type_code"] = draw(st.one_of(
                st.integers(-1, 0x1FF).filter(lambda v: not (0xE0 <= v <= 0xEC) and v != 0xFE),
                st.sampled_from(["", "no such descriptor", "Identification descriptor", "E4", None])))
            if d["descriptor_type_code"] is None:
                del d["descriptor_type_code"]
        elif kind == "target_pdt":
            d["peripheral_device_type"] = draw(st.one_of(
                st.sampled_from([0x02, 0x06, 0x08, 0x09, 0x0A, 0x0C, 0x0D, 0x0F, 0x1F, 0x20, -1, 256]),
                st.sampled_from(["Disk", "", "block"])))
        else:
            d["lu_id_type"] = draw(st.integers(1, 3))
        pos = draw(st.integers(0, len(pre_t)))
        pre_t.insert(pos, d)
        a[lst] = pre_t
        nt = pos > 0 or len(pre_s) > 0
    else:
        d = draw(paramgen.segment(spc5))
        if kind == "segment_key":
            code = d["_code"]
            # a name nothing knows, or a name that is valid elsewhere (the other segment layout, the other
            # SPC flavour, a target descriptor) but not in a descriptor of this type
            elsewhere = sorted((SEG_KEYS(True, 0x02) | SEG_KEYS(True, 0x00) | SEG_KEYS(False, 0x02) | SEG_KEYS(False, 0x00)
                                | {"peripheral_device_type", "lu_id_type", "relative_initiator_port_identifier"})
                               - SEG_KEYS(spc5, code))
            k = draw(st.one_of(BAD_KEYS.filter(lambda x: x not in SEG_KEYS(spc5, code)), st.sampled_from(elsewhere)))
            d[k] = draw(st.integers(0, 3))
        else:
            d["descriptor_type_code"] = draw(st.one_of(
                st.integers(-2, 0x1FF).filter(lambda v: not (0 <= v <= 0x19) and v not in (0xBE, 0xBF)),
                st.sampled_from(["", "block -> nowhere", "0x02", None])))
            if d["descriptor_type_code"] is None:
                del d["descriptor_type_code"]
        pos = draw(st.integers(0, len(pre_s)))
        pre_s.insert(pos, d)
        a["segment_descriptor_list"] = pre_s
        nt = pos > 0 or len(pre_t) > 0
    return {"a": a, "kind": kind, "nt": nt, "path": draw(st.sampled_from(["ctor", "facade"]))}


def SEG_KEYS(spc5, code):
    s = "source_cscd_descriptor_id" if spc5 else "source_target_descriptor_id"
    d = "destination_cscd_descriptor_id" if spc5 else "destination_target_descriptor_id"
    base = {"descriptor_type_code", "cat", "descriptor_length", s, d, "block_device_number_of_blocks"}
    if code in (0x02, 0x0D):
        base |= {"dc", "source_block_device_logical_block_address", "destination_block_device_logical_block_address"}
        if spc5:
            base.add("fco")
    else:
        base |= {"stream_device_transfer_length", "block_device_logical_block_address"}
    return base


def check_xcopy(spc5):
    cmd = cmds.BY_NAME["extendedcopy5" if spc5 else "extendedcopy4"]
    table = "spc"

    def check(case):
        a = paramgen.strip_notes(case["a"])
        if case["path"] == "ctor":
            refused(lambda: cmd.cls(cmd.opcode(table), **copy.deepcopy(a)), "ValueError")
        else:
            s, dev = devs.attach(table)
            refused(lambda: getattr(s, cmd.facade)(**copy.deepcopy(a)), "ValueError", dev)
        return case["nt"], ("xcopy_" + case["kind"],)
    return check


def check_xcopy_valid(spc5):
    cmd = cmds.BY_NAME["extendedcopy5" if spc5 else "extendedcopy4"]

    def check(a):
        a = paramgen.strip_notes(a)
        s, dev = devs.attach("spc")
        accepted(lambda: getattr(s, cmd.facade)(**a), "valid extended copy")
        expect(len(dev.calls) == 1, "mismatch:valid_twin_not_sent")
        return False, ("xcopy_valid",)
    return check


# ---- 5. inconsistent TransportIDs --------------------------------------------------------------
@st.composite
def tpid_bad(draw):
    name = draw(paramgen.iscsi_name(60))
    kind = draw(st.sampled_from(["isid_without_flag", "isid_flag_zero", "flag_without_isid", "flag_empty_isid"]))
    isid = draw(st.text(alphabet="0123456789abcdef", min_size=1, max_size=12))
    t = {"protocol_id": 0x05, "iscsi_name": name}
    if kind == "isid_without_flag":
        t["iscsi_initiator_session_id"] = isid
    elif kind == "isid_flag_zero":
        t["iscsi_initiator_session_id"] = isid
        t["tpid_format"] = 0
    elif kind == "flag_without_isid":
        t["tpid_format"] = 1
    else:
        t["tpid_format"] = 1
        t["iscsi_initiator_session_id"] = ""
    where = draw(st.sampled_from(["alone", "register", "register_and_move"]))
    others = draw(st.lists(paramgen.transport_id(), max_size=4))
    pos = draw(st.integers(0, len(others)))
    keys = {"reservation_key": draw(gen.fv(64)), "service_action_reservation_key": draw(gen.fv(64))}
    return {"t": t, "kind": kind, "where": where, "others": others, "pos": pos, "keys": keys,
            "table": draw(st.sampled_from(["spc", "sbc", "ssc", "smc"])), "path": draw(st.sampled_from(["ctor", "facade"]))}


def check_tpid(case):
    from pyscsi.pyscsi.scsi_cdb_persistentreservein import PersistentReserveInReadFullStatus as RFS

    cmd = cmds.BY_NAME["persistentreserveout"]
    t, where = dict(case["t"]), case["where"]
    good = dict(t)
    good.pop("iscsi_initiator_session_id", None)
    good["tpid_format"] = 0
    if where == "alone":
        refused(lambda: RFS.marshall_transport_id(dict(t)), "ValueError")
        accepted(lambda: RFS.marshall_transport_id(dict(good)), "consistent TransportID")
        return False, ("tpid_alone", case["kind"])
    op = cmd.opcode(case["table"])
    if where == "register":
        ids = [dict(x) for x in case["others"]]
        ids.insert(case["pos"], dict(t))
        kw = dict(case["keys"], spec_i_pt=1, transport_ids=ids)
        sa = 0
        gids = [dict(x) for x in case["others"]]
        gids.insert(case["pos"], dict(good))
        gkw = dict(case["keys"], spec_i_pt=1, transport_ids=gids)
    else:
        kw = dict(case["keys"], transport_id=dict(t))
        gkw = dict(case["keys"], transport_id=dict(good))
        sa = 7
    if case["path"] == "ctor":
        refused(lambda: cmd.cls(op, sa, **copy.deepcopy(kw)), "ValueError")
        accepted(lambda: cmd.cls(op, sa, **copy.deepcopy(gkw)), "consistent PR OUT")
    else:
        s, dev = devs.attach(case["table"])
        refused(lambda: s.persistentreserveout(sa, **copy.deepcopy(kw)), "ValueError", dev)
        accepted(lambda: s.persistentreserveout(sa, **copy.deepcopy(gkw)), "consistent PR OUT")
        expect(len(dev.calls) == 1, "mismatch:valid_twin_not_sent")
    return (where == "register" and case["pos"] > 0), ("tpid_" + where, case["kind"])


def run(ctx):
    k = ctx.n(120 * 4, 4000 * 16)
    for name in BLOCK_CMDS + ["atapassthrough12", "atapassthrough16"]:
        cmd = cmds.BY_NAME[name]
        common.search(ctx, "blocksize:" + name, bs_strategy(cmd), check_blocksize(cmd), k)
    i = 0
    for cmd in cmds.COMMANDS:
        chk = check_opcode(cmd)
        for v in range(256):
            i += 1
            if ctx.mine(i):
                common.run_one(ctx, "opcode:" + cmd.name, v, chk)
    ctx.exhaustive_parts.append("all 256 opcode values x all 42 constructors")
    sa_strategy = st.tuples(
        st.one_of(st.integers(-2, 40), st.integers(-2**40, 2**40), st.sampled_from([0, 1, 2, 3, 4, 31, 32, 255, 256])),
        st.integers(8, 512), st.booleans())
    for table in ("spc", "sbc", "ssc", "smc"):
        common.search(ctx, "prin_sa:" + table, sa_strategy, check_prin(table), k)
    for spc5 in (False, True):
        tag = "5" if spc5 else "4"
        common.search(ctx, "xcopy%s:invalid" % tag, xcopy_bad(spc5), check_xcopy(spc5), 2 * k)
        common.search(ctx, "xcopy%s:valid" % tag, paramgen.xcopy_args(spc5),
                      check_xcopy_valid(spc5), max(20, k // 2))
    common.search(ctx, "transportid", tpid_bad(), check_tpid, 2 * k)


def replay(ctx, subject, case):
    kind, _, rest = subject.partition(":")
    if kind == "blocksize":
        check_blocksize(cmds.BY_NAME[rest])(tuple(case))
    elif kind == "opcode":
        check_opcode(cmds.BY_NAME[rest])(case)
    elif kind == "prin_sa":
        check_prin(rest)(tuple(case))
    elif kind.startswith("xcopy"):
        spc5 = kind.endswith("5")
        (check_xcopy(spc5) if rest == "invalid" else check_xcopy_valid(spc5))(case)
    else:
        check_tpid(case)


def floors(tier, classes, subjects, evaluations, distinct):
    need = ["blocksize", "opcode", "prin_invalid", "prin_valid", "xcopy_target_key", "xcopy_segment_type",
            "xcopy_lu_id_type", "tpid_register", "tpid_register_and_move", "tpid_alone", "xcopy_valid"]
    return ["class %s never generated" % c for c in need if not classes.get(c)]
