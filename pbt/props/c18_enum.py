"""C18 - enumerations map names to values and back consistently under add/remove.

Hypothesis RuleBasedStateMachine with several live enumerations; reference model = an
insertion-ordered dict per enumeration; an invariant re-checks every live enumeration after
each step (so cross-talk between enumerations shows)."""
import keyword

from hypothesis import strategies as st
from hypothesis.stateful import RuleBasedStateMachine, invariant, rule

from pbt import common
from pbt.common import Violation, expect

ID = "C18"
LEVEL = "exploration"
EXHAUSTIVE = False
SHARDS = {"quick": 4, "thorough": 16}
TECHNIQUE = "Hypothesis RuleBasedStateMachine (create/add/remove/lookup/reverse-lookup/keys on up to 5 live enumerations) in lock-step with a dict reference model; invariant over all live enumerations after every step"
RULE = (
    "one case = a history of <= 40 operations over <= 5 live enumerations created from dict or keyword "
    "mappings or owned by OpCode objects (their service-action tables); names are Python identifiers outside the reserved attribute names of type/Enum; values are "
    "ints (incl. equal values under several names and True/1), strings, bytes, None, floats, tuples, nested "
    "dicts and OpCode objects. Non-trivial = the history contains a remove followed by an add and has >= 2 "
    "enumerations alive; distinct = distinct canonical JSON of the operation log"
)
ASSUMPTIONS = [
    "names are identifiers that do not start with '__' and are not attributes of type / Enum (keys, add, remove, mro, ...) - the documented domain",
    "callable values (functions, classes) are outside the generated domain: Enum.keys deliberately filters callables to hide methods",
    "the keyword form needs at least one name (Enum() without arguments is refused by design)",
]

FORBIDDEN = set(dir(type)) | {"keys", "add", "remove"} | set(keyword.kwlist)
NAMES = ["A", "B", "READ_10", "x", "y", "value", "name", "alpha", "beta", "gamma", "K1", "K2", "k_3", "Z9", "opcode",
         "spam", "_private", "items", "get", "update"]


def setup(ctx):
    common.import_pyscsi()


def name_strategy():
    extra = st.text(alphabet="abcdefgXYZ_0123456789", min_size=1, max_size=8).map(
        lambda s: s if s.isidentifier() and not s.startswith("__") and s not in FORBIDDEN else "n" + s.replace("__", "_"))
    return st.one_of(st.sampled_from(NAMES), extra).filter(
        lambda s: s.isidentifier() and not s.startswith("__") and s not in FORBIDDEN)


def value_strategy():
    scalars = st.one_of(st.integers(-5, 5), st.integers(0, 0xFF), st.booleans(), st.none(),
                        st.text(max_size=4), st.binary(max_size=4),
                        st.floats(allow_nan=False, allow_infinity=False, width=32),
                        st.sampled_from([1.0, 0.0, 2.0]))
    return st.one_of(scalars, scalars, st.tuples(scalars, scalars),
                     st.dictionaries(st.text(alphabet="abc", min_size=1, max_size=2), scalars, max_size=3),
                     st.tuples(st.just("OPCODE"), st.integers(0, 255)))


def materialize(v, cache):
    """('OPCODE', n) marks an OpCode object (one object per n within a history; only eight different
    operation codes, so that distinct objects share a code byte the way MAINTENANCE_IN and SMC_OPCODE_A3 or
    the SERVICE ACTION IN(16) family do in the library's tables - each with its own service actions)."""
    if isinstance(v, tuple) and len(v) == 2 and v[0] == "OPCODE":
        from pyscsi.pyscsi.scsi_opcode import OpCode

        if v[1] not in cache:
            cache[v[1]] = OpCode("OP%d" % v[1], 0xA0 + v[1] % 8, {"SA_%d" % v[1]: v[1]})
        return cache[v[1]]
    if isinstance(v, list):
        return tuple(v)
    return v


class World(object):
    """the real enumerations and their dict models, driven by plain operation tuples."""

    def __init__(self):
        self.real, self.model, self.cache = [], [], {}

    def apply(self, op):
        from pyscsi.utils.enum import Enum

        kind = op[0]
        if kind == "create":
            _, form, items = op
            m = {}
            for k, v in items:
                m[k] = materialize(v, self.cache)
            try:
                if form == "opcode_shared_dict":
                    # several OpCode objects are built from one service-action dict (as the library's
                    # tables do): each must own its own enumeration
                    from pyscsi.pyscsi.scsi_opcode import OpCode

                    shared = dict(m)
                    e = OpCode("OP_A", 0x5E, shared).serviceaction
                    e2 = OpCode("OP_B", 0x5E, shared).serviceaction
                    if len(self.real) >= 4:
                        del self.real[0], self.model[0]
                    self.real.append(e2)
                    self.model.append(dict(m))
                elif form == "opcode":
                    # the service-action enumeration every OpCode object owns
                    from pyscsi.pyscsi.scsi_opcode import OpCode

                    e = OpCode("OP", 0x12, dict(m)).serviceaction
                else:
                    e = Enum(dict(m)) if form == "dict" else Enum(**m)
            except Exception as ex:  # noqa
                raise Violation("exc:%s@create" % type(ex).__name__, {"form": form, "error": repr(ex)[:200]})
            if len(self.real) >= 5:
                self.real.pop(0)
                self.model.pop(0)
            self.real.append(e)
            self.model.append(m)
            return
        if not self.real:
            return
        i = op[1] % len(self.real)
        e, m = self.real[i], self.model[i]
        if kind == "add":
            _, _, name, v = op
            v = materialize(v, self.cache)
            if name in m:
                self._refused(lambda: e.add(name, v), "add_existing")
            else:
                try:
                    e.add(name, v)
                except Exception as ex:  # noqa
                    raise Violation("exc:%s@add" % type(ex).__name__, {"name": name, "error": repr(ex)[:200]})
                m[name] = v
        elif kind == "add_existing":
            if m:
                name = list(m)[op[2] % len(m)]
                self._refused(lambda: e.add(name, materialize(op[3], self.cache)), "add_existing")
        elif kind == "add_existing_same_value":
            # adding an existing name is refused also when the value offered is the one it already has
            if m:
                name = list(m)[op[2] % len(m)]
                self._refused(lambda: e.add(name, m[name]), "add_existing")
        elif kind == "remove":
            if m:
                name = list(m)[op[2] % len(m)]
                try:
                    e.remove(name)
                except Exception as ex:  # noqa
                    raise Violation("exc:%s@remove" % type(ex).__name__, {"name": name, "error": repr(ex)[:200]})
                del m[name]
        elif kind == "remove_missing":
            name = op[2]
            if name not in m:
                self._refused(lambda: e.remove(name), "remove_missing")
        elif kind == "reverse":
            v = materialize(op[2], self.cache)
            self._reverse(e, m, v)
        elif kind == "reverse_existing":
            if m:
                self._reverse(e, m, m[list(m)[op[2] % len(m)]])

    @staticmethod
    def _refused(fn, what):
        try:
            fn()
        except KeyError:
            return
        except Exception as ex:  # noqa
            raise Violation("mismatch:%s_wrong_error" % what, {"got": type(ex).__name__})
        raise Violation("mismatch:%s_not_refused" % what, {})

    @staticmethod
    def _reverse(e, m, v):
        # an OpCode object is a value of its own (operation code plus its service-action table): it is found
        # under the name that carries that very object
        from pyscsi.pyscsi.scsi_opcode import OpCode

        same = (lambda x: x is v) if isinstance(v, OpCode) else (lambda x: not isinstance(x, OpCode) and x == v)
        want = next((k for k, x in m.items() if same(x)), "")
        try:
            got = e[v]
        except Exception as ex:  # noqa
            raise Violation("exc:%s@reverse_lookup" % type(ex).__name__, {"value": repr(v)[:80], "error": repr(ex)[:200]})
        expect(got == want, "mismatch:reverse_lookup", value=repr(v)[:80], got=got, want=want, names=list(m))

    def check_all(self):
        for n, (e, m) in enumerate(zip(self.real, self.model)):
            try:
                keys = list(e.keys)
            except Exception as ex:  # noqa
                raise Violation("exc:%s@keys" % type(ex).__name__, {"error": repr(ex)[:200]})
            expect(sorted(keys) == sorted(m), "mismatch:names", enum=n, got=sorted(keys), want=sorted(m))
            expect(len(keys) == len(set(keys)), "mismatch:duplicate_names", got=keys)
            for k, v in m.items():
                try:
                    got = getattr(e, k)
                except Exception as ex:  # noqa
                    raise Violation("exc:%s@getattr" % type(ex).__name__, {"name": k})
                expect(got is v or got == v, "mismatch:value", enum=n, name=k, got=repr(got)[:80], want=repr(v)[:80])
            # reverse lookup of every stored value returns the first name carrying it
            for k, v in m.items():
                self._reverse(e, m, v)


def op_strategy():
    idx = st.integers(0, 7)
    items = st.lists(st.tuples(name_strategy(), value_strategy()), min_size=0, max_size=6, unique_by=lambda t: t[0])
    return st.one_of(
        st.tuples(st.just("create"), st.just("dict"), items),
        st.tuples(st.just("create"), st.just("kwargs"), items.filter(lambda l: len(l) > 0)),
        st.tuples(st.just("create"), st.just("opcode"), st.one_of(st.just([]), items)),
        st.tuples(st.just("create"), st.just("opcode_shared_dict"), st.one_of(st.just([]), items)),
        st.tuples(st.just("add"), idx, name_strategy(), value_strategy()),
        st.tuples(st.just("add"), idx, name_strategy(), value_strategy()),
        st.tuples(st.just("add_existing"), idx, idx, value_strategy()),
        st.tuples(st.just("add_existing_same_value"), idx, idx),
        st.tuples(st.just("remove"), idx, idx),
        st.tuples(st.just("remove"), idx, idx),
        st.tuples(st.just("remove_missing"), idx, name_strategy()),
        st.tuples(st.just("reverse"), idx, value_strategy()),
        st.tuples(st.just("reverse_existing"), idx, idx),
    )


class EnumMachine(RuleBasedStateMachine):
    def __init__(self):
        RuleBasedStateMachine.__init__(self)
        self.world = World()
        self.log = []

    @rule(op=op_strategy())
    def step(self, op):
        self.log.append(op)
        common.machine_step(self, lambda: self.world.apply(op))

    @invariant()
    def agrees(self):
        common.machine_step(self, self.world.check_all)

    def nontrivial(self):
        seen_remove = False
        for i, op in enumerate(self.log):
            if op[0] == "remove":
                seen_remove = True
            elif op[0] == "add" and seen_remove and sum(1 for o in self.log if o[0] == "create") >= 2:
                return True
        return False

    def classes(self):
        return sorted({op[0] for op in self.log})


def run(ctx):
    common.search_machine(ctx, "machine", EnumMachine, ctx.n(600, 24000), steps=40)


def replay(ctx, subject, case):
    w = World()
    for op in case:
        w.apply(tuple(op) if isinstance(op, (list, tuple)) else op)
        w.check_all()


def floors(tier, classes, subjects, evaluations, distinct):
    return ["operation %s never generated" % c for c in ("create", "add", "add_existing", "remove", "remove_missing",
                                                          "reverse", "reverse_existing") if not classes.get(c)]
