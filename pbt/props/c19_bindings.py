"""C19 - the transport bindings are optional; a missing one is refused, not half-used.

Each of the four presence combinations of the sgio / iscsi bindings runs in its own fresh
subprocess (shard i -> configuration i mod 4; presence is fixed before pyscsi is first
imported).  In each: import every module of the package, build/encode/decode every command,
drive the facade over a plain device object, then generated device strings through
init_device and the two device constructors with the dispatch table of the property as oracle.
open()/os.stat() of the device module are intercepted (module namespace), so no real node is
touched and every open is logged."""
import importlib
import io
import pkgutil
import socket

from hypothesis import strategies as st

from pbt import cmds, common, devs, gen, standins
from pbt.common import Violation, expect, lib

ID = "C19"
LEVEL = "exploration"
EXHAUSTIVE = False
SHARDS = {"quick": 4, "thorough": 16}
TECHNIQUE = "four binding-presence configurations in fresh subprocesses; exhaustive import/build/facade smoke pass per configuration; Hypothesis device strings (valid, near-miss, arbitrary) x read/write x initiator names against the dispatch table of the property, with open/connect logs audited"
RULE = (
    "one case = (configuration, entry point in {init_device, SCSIDevice, ISCSIDevice}, device string, read_write, "
    "initiator name or default); strings are '/dev/'+text, 'iscsi://'+host/target/lun text, near misses ('/dev', "
    "'dev/x', ' /dev/x', '/DEV/x', 'iscsi:/', 'ISCSI://', '') and arbitrary text. Non-trivial = a near-miss "
    "string, or a configuration with exactly one binding present; distinct = distinct canonical JSON (the "
    "configuration is part of the subject)"
)
ASSUMPTIONS = [
    "binding presence is simulated by stand-in modules in sys.modules / an import blocker on sys.meta_path installed before the first import of pyscsi",
    "open() and os.stat() are intercepted in the namespace of pyscsi.pyscsi.scsi_device; nothing else of the library is replaced",
    "a direct ISCSIDevice(url) without initiator name may pass any name to the binding (only explicit names and init_device's documented default are compared)",
    "an explicitly empty initiator name given to init_device must reach the device class unchanged: the binding is opened as ISCSIDevice(url, '') opens it (differential; no opinion about the name itself)",
    "init_device is exercised as pyscsi.utils.init_device and through the package re-export pyscsi.init_device, positionally and with keywords",
]

OPENS = []
_CFG = {}


class FakeFile(io.BytesIO):
    def __init__(self, name):
        io.BytesIO.__init__(self)
        self.name = name

    def fileno(self):
        return 3


def fake_open(path, mode="r", buffering=-1, *a, **kw):
    OPENS.append(("open", path, mode))
    return FakeFile(path)


class FakeStat(object):
    st_ino = 4242


class OsProxy(object):
    def __init__(self, real):
        self._real = real

    def stat(self, path, *a, **kw):
        OPENS.append(("stat", path))
        return FakeStat()

    def __getattr__(self, k):
        return getattr(self._real, k)


def setup_for_subject(ctx, subject):
    name = subject[subject.index("[") + 1:-1]
    ctx.shard = (1 if "sgio=1" in name else 0) | (2 if "iscsi=1" in name else 0)
    setup(ctx)


def setup(ctx):
    cfg = ctx.shard % 4
    _CFG["sgio"], _CFG["iscsi"] = bool(cfg & 1), bool(cfg & 2)
    _CFG["name"] = "sgio=%d,iscsi=%d" % (_CFG["sgio"], _CFG["iscsi"])
    try:
        common.import_pyscsi(sgio=_CFG["sgio"], iscsi=_CFG["iscsi"])
    except common.HarnessError:
        raise
    except Exception as e:  # noqa  (the package itself does not import in this configuration)
        _CFG["import_error"] = e
        return
    import pyscsi.pyscsi.scsi_device as sd

    sd.open = fake_open
    sd.os = OsProxy(sd.os)


# ---------------------------------------------------------------------------------------
def smoke(ctx):
    import pyscsi

    subject = "smoke[%s]" % _CFG["name"]

    def imports(_):
        mods = [m.name for m in pkgutil.walk_packages(pyscsi.__path__, "pyscsi.")]
        expect(len(mods) >= 55, "mismatch:package_walk", n=len(mods))
        for m in mods:
            try:
                importlib.import_module(m)
            except Exception as e:  # noqa
                raise Violation("exc:%s@import" % type(e).__name__, {"module": m, "error": repr(e)[:200]})
        import pyscsi.pyscsi.scsi_device as sd
        import pyscsi.pyiscsi.iscsi_device as idv

        expect(sd._has_sgio == _CFG["sgio"] and idv._has_iscsi == _CFG["iscsi"], "mismatch:presence_flags",
               sgio=sd._has_sgio, iscsi=idv._has_iscsi)
        return True, ("imports",)

    common.run_one(ctx, subject, {"pass": "imports"}, imports)
    for cmd in cmds.COMMANDS:
        for table in cmd.tables():
            def one(case, cmd=cmd, table=table):
                a = gen.minimal(cmd)
                with lib("constructor"):
                    c = cmd.build(cmd.opcode(table), a)
                with lib("decode/encode"):
                    d = cmd.cls.unmarshall_cdb(c.cdb)
                    b = cmd.cls.marshall_cdb(d)
                expect(bytes(b) == bytes(c.cdb), "mismatch:smoke_roundtrip")
                if cmd.facade:
                    s, dev = devs.attach(table, blocksize=1)
                    try:
                        with lib("facade"):
                            cmd.call(s, a)
                    except Violation:
                        if len(dev.calls) != 1:
                            raise
                    expect(len(dev.calls) == 1, "mismatch:smoke_facade_executes", n=len(dev.calls))
                return True, ("smoke_cmd",)
            common.run_one(ctx, subject, {"pass": "build", "cmd": cmd.name, "table": table}, one)


# ---------------------------------------------------------------------------------------
TXT = st.text(alphabet=st.characters(min_codepoint=32, max_codepoint=126), max_size=16)


def dev_string():
    # flat and nested device nodes (bsg, by-id aliases, device-mapper)
    good_dev = st.one_of(TXT.map(lambda t: "/dev/" + t),
                         st.sampled_from(["/dev/sg0", "/dev/bsg/0:0:0:0", "/dev/disk/by-id/scsi-3600508b400105e21",
                                          "/dev/mapper/mpatha", "/dev/sr0", "/dev/tape/by-path/x-nst"]))
    # libiscsi URL syntax: iscsi://[<username>[%<password>]@]<host>[:<port>]/<target-iqn>/<lun>
    good_iscsi = st.tuples(st.sampled_from(["127.0.0.1", "10.0.0.1:3260", "[::1]", "host.example", "chap%secret@10.0.0.1",
                                            "user@host.example:3260", "u%p@w@[::1]"]),
                           st.text(alphabet="abcdefghijklmnopqrstuvwxyz0123456789.:-", min_size=1, max_size=24), st.integers(0, 255)
                           ).map(lambda t: "iscsi://%s/iqn.2001-04.%s/%d" % t)
    near = st.one_of(
        st.sampled_from(["/dev", "dev/sg0", " /dev/sg0", "/DEV/sg0", "/dev", "//dev/sg0", "\\dev\\sg0", "/de/v/sg0",
                         "iscsi:/", "iscsi:/host/t/0", "ISCSI://host/t/0", "iscsi//host/t/0", " iscsi://host/t/0",
                         "iscs://host/t/0", "", "/", "i", "disk.img", "./dev/sg0", "file:///dev/sg0", "/devsg0"]),
        TXT.map(lambda t: "/dev" + t.lstrip("/")), TXT.map(lambda t: "iscsi:/" + t.lstrip("/")))
    return st.one_of(good_dev, good_iscsi, near, near, TXT)


def initiator():
    return st.one_of(st.none(), st.none(), st.just(""),
                     st.text(alphabet="abcdefghijklmnopqrstuvwxyz0123456789.:-", min_size=1, max_size=20).map(lambda t: "iqn.2020-01." + t),
                     st.sampled_from(["eui.02004567A425678D", "naa.52004567BA64678D", "myhost", "x"]),
                     TXT.filter(lambda t: len(t) > 0))


def case_strategy():
    return st.fixed_dictionaries({"entry": st.sampled_from(["init_device", "init_device", "SCSIDevice", "ISCSIDevice"]),
                                  "dev": dev_string(), "rw": st.booleans(), "initiator": initiator(),
                                  # init_device as exported by the package (pyscsi.init_device) or by pyscsi.utils,
                                  # called with positional or keyword arguments
                                  "via": st.sampled_from(["utils", "package"]), "kw": st.booleans()})


def check_case(case):
    from pyscsi.pyiscsi.iscsi_device import ISCSIDevice
    from pyscsi.pyscsi.scsi_device import SCSIDevice
    from pyscsi.utils import init_device

    dev, rw, ini, entry = case["dev"], case["rw"], case["initiator"], case["entry"]
    del OPENS[:]
    del standins.LOG[:]
    is_dev = dev[:5] == "/dev/"
    is_iscsi = dev[:8] == "iscsi://"
    if entry == "init_device":
        want = "scsi" if (is_dev and _CFG["sgio"]) else ("iscsi" if (is_iscsi and _CFG["iscsi"]) else None)
        if case.get("via") == "package":
            import pyscsi

            init_device = getattr(pyscsi, "init_device", init_device)  # (the package re-exports pyscsi.utils)
        if case.get("kw"):
            call = (lambda: init_device(dev, read_write=rw)) if ini is None else (
                lambda: init_device(dev, read_write=rw, initiator_name=ini))
        else:
            call = (lambda: init_device(dev, rw)) if ini is None else (lambda: init_device(dev, rw, ini))
        want_name = ini if ini is not None else "iqn.2018-01.org.pyscsi:%s" % socket.gethostname()
    elif entry == "SCSIDevice":
        want = "scsi" if (is_dev and _CFG["sgio"]) else None
        call = lambda: SCSIDevice(dev, rw)  # noqa: E731
        want_name = None
    else:
        want = "iscsi" if (is_iscsi and _CFG["iscsi"]) else None
        call = (lambda: ISCSIDevice(dev)) if ini is None else (lambda: ISCSIDevice(dev, ini))
        want_name = ini
    try:
        obj = call()
        outcome, exc = "return", None
    except Exception as e:  # noqa
        obj, outcome, exc = None, "raise", e
    opens = [o for o in OPENS if o[0] == "open"]
    conns = [e for e in standins.LOG if e[0] in ("iscsi.connect", "iscsi.Context", "iscsi.URL")]
    if want is None:
        expect(outcome == "raise", "mismatch:not_refused", dev=dev, entry=entry, cfg=_CFG["name"], returned=type(obj).__name__)
        expect(type(exc).__name__ == "NotImplementedError", "mismatch:wrong_error", dev=dev, entry=entry,
               got=type(exc).__name__, error=repr(exc)[:160])
        expect(not opens and not OPENS, "mismatch:file_touched_before_refusal", dev=dev, opens=OPENS[:3])
        expect(not conns, "mismatch:connection_attempted_before_refusal", dev=dev, log=[c[0] for c in conns])
    elif want == "scsi":
        expect(outcome == "return", "exc:%s@open_device" % type(exc).__name__, dev=dev, error=repr(exc)[:160])
        expect(type(obj).__name__ == "SCSIDevice", "mismatch:wrong_device_class", got=type(obj).__name__)
        expect(len(opens) == 1 and opens[0][1] == dev and opens[0][2] == ("w+b" if rw else "rb"),
               "mismatch:open_calls", opens=opens, dev=dev, rw=rw)
        expect(all(o[1] == dev for o in OPENS), "mismatch:other_path_touched", touched=OPENS[:4], dev=dev)
        expect(not conns, "mismatch:iscsi_used_for_dev_path")
    else:
        expect(outcome == "return", "exc:%s@open_device" % type(exc).__name__, dev=dev, error=repr(exc)[:160])
        expect(type(obj).__name__ == "ISCSIDevice", "mismatch:wrong_device_class", got=type(obj).__name__)
        ctxs = [c for c in conns if c[0] == "iscsi.Context"]
        urls = [c for c in conns if c[0] == "iscsi.URL"]
        cons = [c for c in conns if c[0] == "iscsi.connect"]
        expect(len(ctxs) == 1 and len(urls) == 1 and len(cons) == 1, "mismatch:iscsi_open_calls",
               n=[len(ctxs), len(urls), len(cons)])
        expect(urls[0][2] == dev, "mismatch:url_not_the_requested_string", got=urls[0][2], want=dev)
        if want_name:
            expect(ctxs[0][2] == want_name, "mismatch:initiator_name", got=ctxs[0][2], want=want_name)
        elif entry == "init_device" and ini == "":
            # an explicit name reaches the device class unchanged - also the empty one, for which ISCSIDevice has
            # a meaning of its own: init_device(url, rw, "") opens what ISCSIDevice(url, "") opens
            got_name = ctxs[0][2]
            del standins.LOG[:]
            with lib("ISCSIDevice(url, '')"):
                ISCSIDevice(dev, "")
            ref = [c for c in standins.LOG if c[0] == "iscsi.Context"]
            expect(len(ref) == 1 and ref[0][2] == got_name, "mismatch:explicit_initiator_name_not_passed_on",
                   got=got_name, want=ref[0][2] if ref else None)
        expect(not OPENS, "mismatch:file_opened_for_iscsi", opens=OPENS[:3])
    near = not (is_dev or is_iscsi) and (dev.lower().lstrip(" /.").startswith(("dev", "iscsi")) or dev == "")
    one_binding = _CFG["sgio"] != _CFG["iscsi"]
    return (near or one_binding), (entry, "want_%s" % want) + (("near_miss",) if near else ())


def run(ctx):
    if "import_error" in _CFG:
        e = _CFG["import_error"]
        v = Violation("exc:%s@import_pyscsi" % type(e).__name__, {"cfg": _CFG["name"], "error": repr(e)[:300]})
        ctx.violation("smoke[%s]" % _CFG["name"], {"pass": "import pyscsi"}, v)
        return
    smoke(ctx)
    subject = "dispatch[%s]" % _CFG["name"]
    reps = max(1, ctx.nshards // 4)
    total = 2400 if not ctx.thorough else 80000
    common.search(ctx, subject, case_strategy(), check_case, max(50, total // 4 // reps))


def replay(ctx, subject, case):
    want = subject[subject.index("[") + 1:-1]
    if want != _CFG["name"]:
        raise common.HarnessError("replay needs configuration %s: run with --shard selecting it" % want)
    if "import_error" in _CFG:
        e = _CFG["import_error"]
        raise Violation("exc:%s@import_pyscsi" % type(e).__name__, {"error": repr(e)[:300]})
    if subject.startswith("dispatch"):
        check_case(case)


def floors(tier, classes, subjects, evaluations, distinct):
    out = []
    for c in ("want_scsi", "want_iscsi", "want_None", "near_miss", "imports", "smoke_cmd"):
        if not classes.get(c):
            out.append("class %s never generated" % c)
    if len([s for s in subjects if s.startswith("dispatch")]) != 4:
        out.append("not all four binding configurations ran")
    return out
