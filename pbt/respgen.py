"""Generators of standards-conformant device responses (C04 C06 C11 C13).

Each Format draws semantic values, renders them with pbt.stdspec.responses (independent
positions / length arithmetic) and states the tree of values the library's decoder must report
(library result-key vocabulary; keys absent from the tree are not compared)."""
from hypothesis import strategies as st

from pbt.gen import fv
from pbt.paramgen import designator, iscsi_name
from pbt.stdspec import responses as R


class Format(object):
    def __init__(self, name, strategy, build, expect, decoder, ndesc=None, garbage_ok=True, cmd=None):
        self.name, self.strategy, self.build, self.expect = name, strategy, build, expect
        self.decoder, self.ndesc, self.garbage_ok, self.cmd = decoder, ndesc or (lambda v: None), garbage_ok, cmd


def dict_of(table, **extra):
    d = {k: fv(w) for k, (b, m, w) in table.items()}
    d.update(extra)
    return st.fixed_dictionaries(d)


def b(n):
    return st.binary(min_size=n, max_size=n)


def _lib(mod, cls):
    import importlib

    return getattr(importlib.import_module("pyscsi.pyscsi." + mod), cls)


def dec(mod, cls, **kw):
    return lambda data, v=None: _lib(mod, cls).unmarshall_datain(data, **kw)


PQPDT = {"pq": st.integers(0, 7), "pdt": st.integers(0, 31)}


def vpd_expect(v, page, extra):
    e = {"peripheral_qualifier": v["pq"], "peripheral_device_type": v["pdt"], "page_code": page}
    e.update(extra)
    return e


# ---- standard INQUIRY ------------------------------------------------------------------------
def std_inquiry_format():
    strat = st.tuples(dict_of(R.STD_INQUIRY, t10_vendor_identification=b(8), product_identification=b(16),
                              product_revision_level=b(4)), st.sampled_from([36, 58, 64, 96, 96, 128, 255]))

    def expect(t):
        v, n = t
        e = dict(v)
        if n <= 56:
            e.update(clocking=0, qas=0, ius=0)
        e["additional_length"] = n - 5
        return e
    # no garbage variant: the parser reads fixed positions; whether bytes beyond ADDITIONAL LENGTH
    # should be ignored is debatable for real devices (many report a short length), so not asserted
    return Format("inquiry_std", strat, lambda t: R.std_inquiry(t[0], t[1]), expect, dec("scsi_cdb_inquiry", "Inquiry", evpd=0),
                  garbage_ok=False, cmd="inquiry")


def vpd_formats():
    I = lambda: dec("scsi_cdb_inquiry", "Inquiry", evpd=1)  # noqa: E731,E741
    out = []
    # page lists / serials / descriptor lists occasionally longer than 255 bytes (two-byte PAGE LENGTH)
    s = st.fixed_dictionaries(dict(PQPDT, pages=st.one_of(st.lists(st.integers(0, 255), max_size=24),
                                                          st.lists(st.integers(0, 255), max_size=24),
                                                          st.lists(st.integers(0, 255), min_size=250, max_size=300))))
    out.append(Format("vpd_00", s, lambda v: R.vpd_supported(v["pages"], pq=v["pq"], pdt=v["pdt"]),
                      lambda v: vpd_expect(v, 0x00, {"vpd_pages": list(v["pages"])}), I(), lambda v: len(v["pages"])))
    s = st.fixed_dictionaries(dict(PQPDT, serial=st.one_of(st.binary(max_size=40), st.binary(max_size=40),
                                                           st.binary(min_size=250, max_size=400))))
    out.append(Format("vpd_80", s, lambda v: R.vpd_serial(v["serial"], pq=v["pq"], pdt=v["pdt"]),
                      lambda v: vpd_expect(v, 0x80, {"unit_serial_number": v["serial"]}), I()))
    for name, page, table, build in (("vpd_86", 0x86, R.EXT_INQUIRY, R.vpd_extended),
                                     ("vpd_b0", 0xB0, R.BLOCK_LIMITS, R.vpd_block_limits),
                                     ("vpd_b1", 0xB1, R.BLOCK_DEV_CHAR, R.vpd_block_dev_char),
                                     ("vpd_b2", 0xB2, R.LBP, R.vpd_lbp), ("vpd_b3", 0xB3, R.REFERRALS, R.vpd_referrals)):
        s = st.tuples(st.fixed_dictionaries(PQPDT), dict_of(table))
        out.append(Format(name, s, (lambda t, build=build: build(t[1], pq=t[0]["pq"], pdt=t[0]["pdt"])),
                          (lambda t, page=page: vpd_expect(t[0], page, dict(t[1]))), I()))
    s = st.tuples(st.fixed_dictionaries(PQPDT), st.fixed_dictionaries(
        {"sat_vendor_identification": b(8), "sat_product_identification": b(16), "sat_product_rev_lvl": b(4),
         "signature_fis": b(20), "identify": b(512)}))
    out.append(Format("vpd_89", s, lambda t: R.vpd_ata_information(t[1], pq=t[0]["pq"], pdt=t[0]["pdt"]),
                      lambda t: vpd_expect(t[0], 0x89, dict(
                          {k: t[1][k] for k in ("sat_vendor_identification", "sat_product_identification", "sat_product_rev_lvl")},
                          # IDENTIFY DEVICE data starts at byte 60 of the page (SAT-3 table "ATA Information VPD page");
                          # ACS: words 10-19 serial number, 23-26 firmware revision, 27-46 model number (raw bytes)
                          identify={"serial_number": t[1]["identify"][20:40], "firmware_rev": t[1]["identify"][46:54],
                                    "model_number": t[1]["identify"][54:94],
                                    # ACS IDENTIFY DEVICE data consists of little-endian words: word 0 (general
                                    # configuration) bit 15 = not an ATA device, bit 2 = incomplete response;
                                    # word 2 = specific configuration (37C8h, 738Ch, 8C73h, C837h)
                                    "general_config": {"ata_device": t[1]["identify"][1] >> 7,
                                                       "respose_incomplete": (t[1]["identify"][0] >> 2) & 1},
                                    "specific_config": t[1]["identify"][4] | (t[1]["identify"][5] << 8)},
                          # SAT-3 table "ATA device signature": the 20 bytes are the image of the register device
                          # to host FIS: 0 transport id (34h), 2 status, 3 error, 4 LBA(7:0), 5 LBA(15:8),
                          # 6 LBA(23:16), 7 device, 8..10 LBA(47:24), 12 count(7:0), 13 count(15:8)
                          signature={"sector_count": t[1]["signature_fis"][12], "lba_low": t[1]["signature_fis"][4],
                                     "lba_mid": t[1]["signature_fis"][5], "lba_high": t[1]["signature_fis"][6],
                                     "device": t[1]["signature_fis"][7]})), I()))
    # device identification
    def desc():
        def mk(t):
            (dt, cs, des), piv, assoc, proto = t
            return {"designator_type": dt, "code_set": cs, "designator": des, "piv": piv, "association": assoc,
                    "protocol_identifier": proto}
        name_string = st.tuples(st.just(8), st.just(3), st.fixed_dictionaries({"scsi_name_string": iscsi_name(40).map(
            lambda s_: (lambda raw: raw + bytes(-len(raw) % 4))(s_.encode() + b"\0"))}))
        return st.tuples(st.one_of(designator(60), name_string), st.integers(0, 1), st.integers(0, 2), fv(4)).map(mk)
    s = st.fixed_dictionaries(dict(PQPDT, descs=st.one_of(st.lists(desc(), max_size=8), st.lists(desc(), max_size=8),
                                                          st.lists(desc(), min_size=20, max_size=28))))

    def exp83(v):
        ds = []
        for d in v["descs"]:
            body = R.designator_body(d["designator_type"], d["designator"])
            e = {"designator_type": d["designator_type"], "code_set": d["code_set"], "piv": d["piv"],
                 "association": d["association"], "designator_length": len(body), "designator": dict(d["designator"])}
            if d["piv"] and d["association"] in (1, 2):
                e["protocol_identifier"] = d["protocol_identifier"]
            else:
                e["protocol_identifier"] = "$absent"  # reserved unless PIV=1 and the association is a target port/device
            ds.append(e)
        return vpd_expect(v, 0x83, {"designator_descriptors": ds})
    out.append(Format("vpd_83", s, lambda v: R.vpd_device_identification(v["descs"], pq=v["pq"], pdt=v["pdt"]), exp83, I(),
                      lambda v: len(v["descs"])))
    for f in out:
        f.cmd = "inquiry"
    return out


# ---- MODE SENSE ----------------------------------------------------------------------------------
PAGE_KINDS = [(0x0A, None, R.CONTROL_PAGE), (0x0A, 1, R.CONTROL_EXT_PAGE), (0x02, None, R.DISCONNECT_PAGE),
              (0x1D, None, R.ELEMENT_ADDRESS_PAGE)]


@st.composite
def one_page(draw):
    code, sub, table = draw(st.sampled_from(PAGE_KINDS))
    p = {k: draw(fv(w)) for k, (b_, m, w) in table.items()}
    p.update(ps=draw(st.integers(0, 1)), spf=1 if sub is not None else 0, page_code=code)
    if sub is not None:
        p["sub_page_code"] = sub
    return p


def mode_formats():
    out = []
    for ten in (False, True):
        hdr = {"medium_type": fv(8), "device_specific_parameter": fv(8)}
        if ten:
            hdr["longlba"] = st.integers(0, 1)
        one_bd = st.fixed_dictionaries({"density_code": fv(8), "number_of_blocks": fv(24), "block_length": fv(24)})
        bd = st.lists(one_bd, max_size=3)
        if ten:  # block descriptor length >= 256 needs the two-byte field
            bd = st.one_of(bd, bd, bd, st.lists(one_bd, min_size=32, max_size=40))
        s = st.tuples(st.fixed_dictionaries(hdr), st.lists(one_page(), min_size=1, max_size=1), bd)
        build = (lambda t, ten=ten: (R.mode10 if ten else R.mode6)(t[0], t[1], t[2]))

        def expect(t):
            e = dict(t[0])
            e["mode_pages"] = [dict(p) for p in t[1]]
            return e
        name = "mode10" if ten else "mode6"
        out.append(Format(name, s, build, expect, dec("scsi_cdb_modesense10" if ten else "scsi_cdb_modesense6",
                                                     "ModeSense10" if ten else "ModeSense6"),
                          lambda t: len(t[2]), cmd="modesense10" if ten else "modesense6"))
        s2 = st.tuples(st.fixed_dictionaries(hdr), st.lists(one_page(), min_size=2, max_size=4), bd)
        out.append(Format(name + "_multipage", s2, build, expect, out[-1].decoder, lambda t: len(t[1]),
                          cmd="modesense10" if ten else "modesense6"))
    return out


# ---- SBC ------------------------------------------------------------------------------------------
def sbc_formats():
    out = []
    s = st.fixed_dictionaries({"returned_lba": fv(32), "block_length": fv(32)})
    out.append(Format("readcapacity10", s, R.read_capacity10, dict, dec("scsi_cdb_readcapacity10", "ReadCapacity10"),
                      cmd="readcapacity10"))
    out.append(Format("readcapacity16", dict_of(R.READCAP16), R.read_capacity16, dict,
                      dec("scsi_cdb_readcapacity16", "ReadCapacity16"), cmd="readcapacity16"))
    d = st.fixed_dictionaries({"lba": fv(64), "num_blocks": fv(32), "p_status": fv(4)})
    s = st.lists(d, max_size=24)
    out.append(Format("getlbastatus", s, R.get_lba_status, lambda v: {"lbas": [dict(x) for x in v]},
                      dec("scsi_cdb_getlbastatus", "GetLBAStatus"), len, cmd="getlbastatus"))
    s = st.lists(fv(64), max_size=24)
    out.append(Format("reportluns", s, R.report_luns, lambda v: {"luns": [{"$anykey": x} for x in v]},
                      dec("scsi_cdb_report_luns", "ReportLuns"), len, cmd="reportluns"))
    g = st.fixed_dictionaries(dict({k: fv(w) for k, (b_, m, w) in R.TPG_DESC.items()}, ports=st.lists(fv(16), max_size=5)))
    s = st.tuples(st.lists(g, max_size=8), st.booleans(), fv(8))

    def exp_rtpg(t):
        groups, ext, itt = t
        e = {"target_port_group_descriptors": [dict({k: x[k] for k in R.TPG_DESC}, target_port_count=len(x["ports"]),
                                                    target_ports=[{"relative_target_port_id": p} for p in x["ports"]])
                                               for x in groups]}
        if ext:
            e["format_type"] = 1
            e["implicit_transition_time"] = itt
        else:
            e["format_type"] = 0
        return e
    out.append(Format("rtpg", s, lambda t: R.rtpg(t[0], t[1], t[2]), exp_rtpg,
                      dec("scsi_cdb_report_target_port_groups", "ReportTargetPortGroups"), lambda t: len(t[0]),
                      cmd="reporttargetportgroups"))
    pd_ = st.fixed_dictionaries({"current_priority": fv(4), "rtpi": fv(16), "tid": tid_strategy()})
    s = st.lists(pd_, max_size=6)
    out.append(Format("report_priority", s,
                      lambda v: R.report_priority([dict(x, transport_id=R.transport_id(x["tid"])) for x in v]),
                      lambda v: {"priority_descriptors": [{"current_priority": x["current_priority"], "rtpi": x["rtpi"],
                                                           "transport_id": bytes(R.transport_id(x["tid"]))} for x in v]},
                      dec("scsi_cdb_report_priority", "ReportPriority"), len, cmd="reportpriority"))
    return out


def tid_strategy():
    b8 = b(8)
    return st.one_of(
        st.fixed_dictionaries({"protocol_id": st.just(0), "tpid_format": st.just(0), "n_port_name": b8}),
        st.fixed_dictionaries({"protocol_id": st.just(3), "tpid_format": st.just(0), "eui64_name": b8}),
        st.fixed_dictionaries({"protocol_id": st.just(4), "tpid_format": st.just(0), "initiator_port_identifier": b(16)}),
        st.fixed_dictionaries({"protocol_id": st.just(5), "tpid_format": st.just(0), "iscsi_name": iscsi_name(80)}),
        st.fixed_dictionaries({"protocol_id": st.just(5), "tpid_format": st.just(1), "iscsi_name": iscsi_name(80),
                               "iscsi_initiator_session_id": st.text(alphabet="0123456789abcdef", min_size=1, max_size=12)}),
        st.fixed_dictionaries({"protocol_id": st.just(6), "tpid_format": st.just(0), "sas_address": b8}),
    )


# ---- PERSISTENT RESERVE IN ------------------------------------------------------------------------
def prin_formats():
    M = "scsi_cdb_persistentreservein"
    out = []
    s = st.tuples(fv(32), st.lists(fv(64), max_size=24))
    out.append(Format("prin_read_keys", s, lambda t: R.prin_read_keys(t[0], t[1]),
                      lambda t: {"pr_generation": t[0], "reservation_keys": list(t[1])},
                      dec(M, "PersistentReserveInReadKeys"), lambda t: len(t[1]), cmd="prin_readkeys"))
    res = st.one_of(st.none(), st.fixed_dictionaries({"reservation_key": fv(64), "scope": fv(4), "type": fv(4)}))
    s = st.tuples(fv(32), res)
    out.append(Format("prin_read_reservation", s, lambda t: R.prin_read_reservation(t[0], t[1]),
                      lambda t: dict({"pr_generation": t[0]}, **(t[1] or {})),
                      dec(M, "PersistentReserveInReadReservation"), cmd="prin_readreservation"))
    s = dict_of(R.REPORT_CAP)

    def exp_cap(v):
        mask = ("wr_ex_ar", "ex_ac_ro", "wr_ex_ro", "ex_ac", "wr_ex", "ex_ac_ar")
        e = {k: x for k, x in v.items() if k not in mask}
        e["pr_type_mask"] = {k: v[k] for k in mask}
        return e
    out.append(Format("prin_report_capabilities", s, R.prin_report_capabilities, exp_cap,
                      dec(M, "PersistentReserveInReportCapabilities"), cmd="prin_reportcapabilities"))
    d = st.fixed_dictionaries({"reservation_key": fv(64), "all_tg_pt": fv(1), "r_holder": fv(1), "scope": fv(4),
                               "type": fv(4), "relative_target_port_id": fv(16), "transport_id": tid_strategy()})
    s = st.tuples(fv(32), st.lists(d, max_size=6))
    out.append(Format("prin_read_full_status", s, lambda t: R.prin_read_full_status(t[0], t[1]),
                      lambda t: {"pr_generation": t[0], "full_status": [dict(x) for x in t[1]]},
                      dec(M, "PersistentReserveInReadFullStatus"), lambda t: len(t[1]), cmd="prin_readfullstatus"))
    return out


# ---- SMC READ ELEMENT STATUS -----------------------------------------------------------------------
@st.composite
def element_page(draw):
    et = draw(st.integers(1, 4))
    pv, av = draw(st.integers(0, 1)), draw(st.integers(0, 1))
    table = dict(R.ELEM_BASE, **R.ELEM_EXTRA[et])
    els = []
    for _ in range(draw(st.integers(0, 6))):
        e = {k: draw(fv(w)) for k, (b_, m, w) in table.items()}
        if pv:
            e["primary_volume_tag"] = draw(b(36))
        if av:
            e["alternate_volume_tag"] = draw(b(36))
        els.append(e)
    return {"element_type": et, "pvoltag": pv, "avoltag": av, "elements": els, "extra_len": draw(st.sampled_from([4, 4, 0, 8, 36]))}


@st.composite
def big_element_page(draw):
    """one page whose descriptor data exceeds 65535 bytes (the 3-byte BYTE COUNT fields matter):
    560 descriptors of 120 bytes; descriptors share generated field values except the address."""
    et = draw(st.integers(1, 4))
    table = dict(R.ELEM_BASE, **R.ELEM_EXTRA[et])
    proto = {k: draw(fv(w)) for k, (b_, m, w) in table.items()}
    tag1, tag2 = draw(b(36)), draw(b(36))
    n = draw(st.integers(547, 600))
    els = [dict(proto, element_address=(i * 7 + 1) & 0xFFFF, primary_volume_tag=tag1, alternate_volume_tag=tag2) for i in range(n)]
    return {"element_type": et, "pvoltag": 1, "avoltag": 1, "elements": els, "extra_len": 36}


def smc_formats():
    pages = st.one_of(st.lists(element_page(), max_size=4), st.lists(element_page(), max_size=4),
                      st.lists(element_page(), max_size=4), st.lists(element_page(), max_size=4),
                      st.tuples(big_element_page(), st.lists(element_page(), max_size=1)).map(lambda t: [t[0]] + t[1]))
    s = st.tuples(fv(16), fv(16), pages)

    def exp(t):
        first, num, pages = t
        return {"first_element_address": first, "num_elements": num,
                "element_status_pages": [{"element_type": p["element_type"], "pvoltag": p["pvoltag"], "avoltag": p["avoltag"],
                                          "element_descriptors": [dict(e, **{"$exact": True}) for e in p["elements"]]} for p in pages]}
    return [Format("readelementstatus", s, lambda t: R.element_status(t[0], t[1], t[2]), exp,
                   dec("scsi_cdb_readelementstatus", "ReadElementStatus"),
                   lambda t: sum(len(p["elements"]) for p in t[2]), cmd="readelementstatus")]


# ---- MMC --------------------------------------------------------------------------------------------
def mmc_formats():
    out = []
    D = lambda: dec("scsi_cdb_readdiscinformation", "ReadDiscInformation")  # noqa: E731
    sdi = {k: fv(w) for k, (b_, m, w) in R.SDI.items() if k != "disc_information_data_type"}
    sdi.update(number_of_sessions=fv(16), first_track_number_in_last_session=fv(16), last_track_number_in_last_session=fv(16),
               last_session_lead_in_start_address=b(4), last_possible_lead_out_start_address=b(4), disc_bar_code=b(8),
               disc_type=st.sampled_from([0x00, 0x10, 0x20, 0xFF]))
    s = st.tuples(st.fixed_dictionaries(sdi), st.integers(0, 4).map(lambda n: bytes(8 * n)))

    def exp_sdi(t):
        e = dict(t[0], disc_information_data_type=0)
        e["number_of_opc_tables"] = t[0]["number_of_opc_tables"]
        e["disc_information_length"] = 32 + len(t[1])
        return e
    out.append(Format("discinfo_standard", s, lambda t: R.disc_information(t[0], t[1]), exp_sdi, D(), cmd="readdiscinformation"))
    tr = {k: fv(16) for k in ["maximum_possible_number_of_the_tracks", "number_of_the_assigned_tracks",
                              "maximum_possible_number_of_appendable_tracks", "current_number_of_appendable_tracks"]}
    out.append(Format("discinfo_track_resources", st.fixed_dictionaries(tr), R.track_resources_information,
                      lambda v: dict(v, disc_information_data_type=1, disc_information_length=10), D(), cmd="readdiscinformation"))
    pw = {k: fv(32) for k in ["remaining_pow_replacements", "remaining_pow_reallocation_map_entries",
                              "number_of_remaining_pow_updates"]}
    out.append(Format("discinfo_pow_resources", st.fixed_dictionaries(pw), R.pow_resources_information,
                      lambda v: dict(v, disc_information_data_type=2, disc_information_length=14), D(), cmd="readdiscinformation"))
    out.append(readcd_format())
    return out


# MMC-6 table "Number of Bytes Returned Based on Data Selection Field": combinations the drive accepts,
# given as (est, mcsb 5-bit) pairs this model is sure of.
READCD_OK = {
    1: [0x02],  # CD-DA: user data
    2: [0x02, 0x06, 0x14, 0x16, 0x17, 0x1F, 0x03, 0x04],  # mode 1
    3: [0x02, 0x06, 0x14, 0x16, 0x04],  # mode 2 formless (no EDC/ECC)
    4: [0x02, 0x04, 0x08, 0x0C, 0x0A, 0x0E, 0x1E, 0x1F, 0x14, 0x03],  # mode 2 form 1
    5: [0x02, 0x04, 0x08, 0x0C, 0x0A, 0x0E, 0x1E, 0x1F, 0x14, 0x03],  # mode 2 form 2
}


@st.composite
def readcd_case(draw):
    est = draw(st.integers(1, 5))
    mcsb = draw(st.sampled_from(READCD_OK[est]))
    c2ei = draw(st.integers(0, 2))
    scsb = draw(st.sampled_from([0, 2, 4]))
    lba = draw(fv(24))
    tl = draw(st.integers(0, 3))
    sectors = []
    for _ in range(tl):
        sectors.append({"sync": draw(b(12)), "header": draw(b(4)), "subheader": draw(b(8)),
                        "data": draw(b(R.USER_DATA[est])), "edc": draw(b(4)), "p": draw(b(172)), "q": draw(b(104)),
                        "c2": draw(b(296)), "sub": draw(b(96))})
    return {"est": est, "mcsb": mcsb, "c2ei": c2ei, "scsb": scsb, "lba": lba, "tl": tl, "sectors": sectors}


def readcd_format():
    def build(v):
        return bytearray(b"".join(bytes(R.readcd_sector(v["est"], v["mcsb"], v["c2ei"], v["scsb"], s)) for s in v["sectors"]))

    def expect(v):
        out = {}
        est, mcsb = v["est"], v["mcsb"]
        for i, s in enumerate(v["sectors"]):
            e = {}
            if est == 1:
                if mcsb & 0x1F:
                    e["data"] = s["data"]
            else:
                if mcsb & 0x10:
                    e["sync"] = s["sync"]
                if mcsb & 0x04:
                    # sector header (ECMA-130 14.2): MSF address of the sector and the MODE byte
                    h = s["header"]
                    e["sector-header"] = {"minute": h[0], "second": h[1], "frame": h[2], "mode": h[3]}
                if mcsb & 0x08 and est in (4, 5):
                    # mode 2 sub-header: file number, channel number, sub-mode, coding information - recorded twice
                    sh = s["subheader"]
                    e["sector-subheader"] = [{"file-number": sh[o], "channel-number": sh[o + 1], "sub-mode": sh[o + 2],
                                              "data": sh[o:o + 4]} for o in (0, 4)]
                if mcsb & 0x02:
                    e["data"] = s["data"]
                if mcsb & 0x01 and est in (2, 4, 5):
                    e["edc"] = s["edc"]
                    if est in (2, 4):
                        e["p-parity"] = s["p"]
                        e["q-parity"] = s["q"]
            if v["c2ei"] == 1:
                e["c2ei-data"] = s["c2"][:294]
            elif v["c2ei"] == 2:
                # C2 and block error bits: block error byte, pad byte and the 294 C2 bytes
                e["c2ei"] = {"data": s["c2"][:296]}
            if v["scsb"] == 2:
                # MMC-6 table "Formatted Q sub-channel response data"
                q = s["sub"][:16]
                e["subchannel"] = {"data": q, "c": q[0] >> 4, "adr": q[0] & 0x0F, "track-number": q[1], "index-number": q[2],
                                   "min": q[3], "sec": q[4], "frame": q[5], "zero": q[6], "amin": q[7], "asec": q[8],
                                   "aframe": q[9], "crc": (q[10] << 8) | q[11], "p": q[15] >> 7}
            elif v["scsb"] == 4:
                e["subchannel"] = {"data": s["sub"][:96]}
            out[v["lba"] + i] = e
        return {"$intkeys": out}

    def decode(data, v):
        kw = dict(lba=v["lba"], tl=v["tl"], est=v["est"], mcsb=v["mcsb"], c2ei=v["c2ei"], scsb=v["scsb"])
        if v["lba"] % 2:
            # selections that were not asked for may be left out by the caller (they default to "none")
            for k in ("c2ei", "scsb"):
                if kw[k] == 0:
                    del kw[k]
        return _lib("scsi_cdb_readcd", "ReadCd").unmarshall_datain(data, **kw)
    return Format("readcd", readcd_case(), build, expect, decode, lambda v: v["tl"], garbage_ok=True, cmd="readcd")


def all_formats():
    return [std_inquiry_format()] + vpd_formats() + mode_formats() + sbc_formats() + prin_formats() + smc_formats() + mmc_formats()


# ---- comparison ---------------------------------------------------------------------------------------
def compare(got, want, path=""):
    """first difference between the library's result and the expected tree, or None."""
    if isinstance(want, dict):
        if "$intkeys" in want:
            w = want["$intkeys"]
            if not isinstance(got, dict) or sorted(got) != sorted(w):
                return (path, "keys", sorted(got) if isinstance(got, dict) else type(got).__name__, sorted(w))
            for k in w:
                d = compare(got[k], w[k], "%s[%d]" % (path, k))
                if d:
                    return d
            return None
        if "$anykey" in want:
            if not isinstance(got, dict) or len(got) != 1:
                return (path, "shape", repr(got)[:80], "one-entry dict")
            return compare(list(got.values())[0], want["$anykey"], path + ".*")
        if not isinstance(got, dict):
            return (path, "type", type(got).__name__, "dict")
        if want.get("$exact"):
            extra = sorted(set(got) - set(want))
            if extra:
                return (path + "." + extra[0], "unexpected_key", _s(got[extra[0]]), None)
        for k, w in want.items():
            if k == "$exact":
                continue
            if isinstance(w, str) and w == "$absent":
                if k in got:
                    return (path + "." + k, "unexpected_key", _s(got[k]), None)
                continue
            if k not in got:
                return (path + "." + k, "missing", None, _s(w))
            d = compare(got[k], w, path + "." + k)
            if d:
                return d
        return None
    if isinstance(want, list):
        if not isinstance(got, (list, tuple)):
            return (path, "type", type(got).__name__, "list")
        # common prefix first, so that a known count mismatch does not hide value mismatches
        for i, (g, w) in enumerate(zip(got, want)):
            d = compare(g, w, "%s[%d]" % (path, i))
            if d:
                return d
        if len(got) != len(want):
            return (path, "count", len(got), len(want))
        return None
    if isinstance(want, (bytes, bytearray)):
        if not isinstance(got, (bytes, bytearray)) or bytes(got) != bytes(want):
            return (path, "value", _s(got), _s(want))
        return None
    if isinstance(want, str) and isinstance(got, (bytes, bytearray)):
        return None if bytes(got) == want.encode() else (path, "value", _s(got), want)
    if got != want:
        return (path, "value", _s(got), _s(want))
    return None


def _s(x):
    if isinstance(x, (bytes, bytearray)):
        return bytes(x).hex()[:80]
    return repr(x)[:80]
