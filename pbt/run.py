"""Dispatcher:  run.py <ID> [--tier quick|thorough] [--replay file]
                run.py selftest
Internal:       run.py <ID> --tier T --shard i/n --frag path

Exit codes: 0 held (possibly with KNOWN-FINDING lines), 1 VIOLATION, 2 harness error."""
import argparse
import importlib
import json
import os
import shutil
import subprocess
import sys
import time
import traceback

HERE = os.path.dirname(os.path.abspath(__file__))
VERIF = os.path.dirname(HERE)
if VERIF not in sys.path:
    sys.path.insert(0, VERIF)

from pbt import common  # noqa: E402

PROPS = {
    "C01": "c01_cdb_wire", "C02": "c02_cdb_roundtrip", "C03": "c03_buffers",
    "C04": "c04_responses", "C05": "c05_paramlists", "C06": "c06_roundtrip",
    "C07": "c07_status", "C08": "c08_sense", "C09": "c09_isolation",
    "C10": "c10_codec", "C11": "c11_termination", "C12": "c12_blockstore",
    "C13": "c13_facade", "C14": "c14_opcodes", "C15": "c15_handles",
    "C16": "c16_attach", "C17": "c17_refusal", "C18": "c18_enum",
    "C19": "c19_bindings",
}


def load(prop):
    return importlib.import_module("pbt.props." + PROPS[prop])


def run_shard(args):
    mod = load(args.id)
    i, n = (int(x) for x in args.shard.split("/"))
    ctx = common.Ctx(args.id, args.tier, args.seed, i, n, mod)
    status = 0
    err = None
    try:
        if hasattr(mod, "setup"):
            mod.setup(ctx)
        ctx.load_known()
        ctx.replay_regressions()
        mod.run(ctx)
    except common.HarnessError as e:
        status, err = 2, "HarnessError: %s" % e
    except Exception:  # noqa
        status, err = 2, traceback.format_exc()
    frag = ctx.fragment()
    frag["error"] = err
    with open(args.frag, "w") as f:
        json.dump(frag, f)
    return status


def merge_and_report(args, mod, frags, wall):
    errors = [f["error"] for f in frags if f.get("error")]
    evaluations = sum(f["evaluations"] for f in frags)
    nontrivial = set()
    for f in frags:
        nontrivial.update(f["nontrivial_hex"])
    classes, subjects = {}, {}
    excluded_known, excluded_found = {}, {}
    samples, viol, known_lines, known_notes, extra, exh = [], {}, [], [], {}, []
    for f in frags:
        for k, v in f["classes"].items():
            classes[k] = classes.get(k, 0) + v
        for k, v in f["subjects"].items():
            s = subjects.setdefault(k, [0, 0])
            s[0] += v[0]
            s[1] += v[1]
        for k, v in f["excluded_known"].items():
            excluded_known[k] = excluded_known.get(k, 0) + v
        for k, v in f["excluded_found"].items():
            excluded_found[k] = excluded_found.get(k, 0) + v
        for v in f["violations"]:
            viol.setdefault(v["signature"], v)
        for line in f["known_lines"]:
            if line not in known_lines:
                known_lines.append(line)
        for line in f["known_notes"]:
            if line not in known_notes:
                known_notes.append(line)
        for k, v in f["extra"].items():
            if isinstance(v, (int, float)) and isinstance(extra.get(k), (int, float)):
                extra[k] += v
            elif isinstance(v, list) and isinstance(extra.get(k), list):
                extra[k] = extra[k] + [x for x in v if x not in extra[k]]
            elif isinstance(v, dict) and isinstance(extra.get(k), dict):
                for kk, vv in v.items():
                    if isinstance(vv, (int, float)) and isinstance(extra[k].get(kk), (int, float)):
                        extra[k][kk] += vv
                    else:
                        extra[k].setdefault(kk, vv)
            else:
                extra.setdefault(k, v)
        for p in f["exhaustive_parts"]:
            if p not in exh:
                exh.append(p)
    # samples: round-robin over shards so every subject family shows up
    seen = set()
    for f in frags:
        for s in f["samples"]:
            key = s["subject"]
            if key in seen:
                continue
            seen.add(key)
            samples.append(s)
    samples = samples[:40]

    for line in known_lines:
        print(line)
    for sig, v in viol.items():
        print("VIOLATION property=%s replay=%s" % (args.id, v.get("replay", "?")))
        print("  signature: %s" % sig)
        print("  detail: %s" % json.dumps(v["detail"])[:600])

    floors = []
    if hasattr(mod, "floors") and not errors:
        floors = mod.floors(args.tier, classes, subjects, evaluations, len(nontrivial)) or []
    if len(nontrivial) < 2 and not viol and not errors:
        floors.append("fewer than 2 distinct non-trivial cases")

    coverage = {
        "evaluations": evaluations,
        "distinct_nontrivial": len(nontrivial),
        "rule": mod.RULE,
        "samples": samples or [{"note": "no non-trivial sample recorded"}],
        "classes": dict(sorted(classes.items())),
        "subjects": {k: {"evaluations": v[0], "distinct_nontrivial": v[1]} for k, v in subjects.items()},
        "exhaustive": bool(getattr(mod, "EXHAUSTIVE", False)),
        "exhaustive_parts": exh,
        "shards": len(frags),
        "shard_wall_s": sorted(round(f.get("wall_s", 0), 1) for f in frags),
        "excluded_known_finding_cases": excluded_known,
        "excluded_after_first_report": excluded_found,
        "known_findings_reported": known_lines,
        "notes": known_notes,
        "generator_floor_failures": floors,
    }
    coverage.update(extra)
    ev = {
        "property_id": args.id,
        "tier": args.tier,
        "seed": args.seed,
        "level": mod.LEVEL,
        "coverage": coverage,
        "assumptions": list(mod.ASSUMPTIONS),
        "wall_s": round(wall, 2),
        "violations": len(viol),
        "technique": getattr(mod, "TECHNIQUE", ""),
        "repo": common.REPO,
    }
    os.makedirs(os.path.join(common.OUT, "evidence"), exist_ok=True)
    with open(os.path.join(common.OUT, "evidence", args.id + ".json"), "w") as f:
        json.dump(ev, f, indent=1, sort_keys=True)
    print(
        "%s tier=%s seed=%d evaluations=%d distinct_nontrivial=%d violations=%d wall=%.1fs"
        % (args.id, args.tier, args.seed, evaluations, len(nontrivial), len(viol), wall)
    )
    if errors:
        for e in errors:
            print("HARNESS-ERROR: " + e, file=sys.stderr)
        return 2
    if viol:
        return 1
    if floors:
        for fl in floors:
            print("HARNESS-ERROR: generator floor: " + fl, file=sys.stderr)
        return 2
    return 0


def stall_fragment(args, rec, stall):
    """Fragment standing in for a shard that was killed because one case never returned."""
    ctx = common.Ctx(args.id, args.tier, args.seed, 0, 1, load(args.id))
    v = common.Violation("no_return", {"note": "the call had not returned after %d s of wall-clock time "
                                                "(typical: milliseconds); the shard was killed" % stall})
    ctx.violation(rec["subject"], common.dec(rec["case"]), v)
    frag = ctx.fragment()
    frag["error"] = None
    return frag


def run_parent(args):
    mod = load(args.id)
    n = mod.SHARDS.get(args.tier, 1) if isinstance(mod.SHARDS, dict) else 1
    n = max(1, min(n, int(os.environ.get("VERIF_MAX_SHARDS", "16"))))
    scratch = os.path.join("/dev/shm" if os.path.isdir("/dev/shm") else VERIF, "verif-%d" % os.getpid())
    os.makedirs(scratch, exist_ok=True)
    t0 = time.time()
    limit = getattr(mod, "TIME_LIMIT", {"quick": int(os.environ.get("VERIF_QUICK_LIMIT", "900")), "thorough": 7200})[args.tier]
    stall = getattr(mod, "STALL_LIMIT", None)
    try:
        procs = []
        for i in range(n):
            frag = os.path.join(scratch, "frag-%d.json" % i)
            cmd = [sys.executable, "-B", os.path.abspath(__file__), args.id, "--tier", args.tier,
                   "--seed", str(args.seed), "--shard", "%d/%d" % (i, n), "--frag", frag]
            env = dict(os.environ)
            env["VERIF_SCRATCH"] = os.path.join(scratch, "s%d" % i)
            os.makedirs(env["VERIF_SCRATCH"], exist_ok=True)
            hb = None
            if stall:
                hb = env["VERIF_HEARTBEAT"] = os.path.join(scratch, "hb-%d" % i)
            procs.append((subprocess.Popen(cmd, env=env), frag, hb))
        frags, bad = [], []
        stalled = set()
        while stall and any(p.poll() is None for p, _, _ in procs) and time.time() - t0 < limit:
            time.sleep(0.5)
            for p, frag, hb in procs:
                if p.poll() is not None or p.pid in stalled:
                    continue
                try:
                    st = os.stat(hb)
                    if time.time() - st.st_mtime < stall:
                        continue
                    with open(hb) as f:
                        cur = f.read()
                    if not cur.startswith("{") or os.stat(hb).st_mtime != st.st_mtime:
                        continue
                    rec = json.loads(cur)
                except (OSError, ValueError):
                    continue
                # one case has been running for `stall` seconds: the call does not come back
                p.kill()
                stalled.add(p.pid)
                frags.append(stall_fragment(args, rec, stall))
        for p, frag, hb in procs:
            if p.pid in stalled:
                p.wait()
                continue
            try:
                rc = p.wait(timeout=max(1, limit - (time.time() - t0)))
            except subprocess.TimeoutExpired:
                p.kill()
                bad.append("shard watchdog expired after %ds (inconclusive, not a violation)" % limit)
                continue
            if os.path.exists(frag):
                with open(frag) as f:
                    frags.append(json.load(f))
            else:
                bad.append("shard exited %s without a fragment" % rc)
        if bad:
            for b in bad:
                print("HARNESS-ERROR: " + b, file=sys.stderr)
            if not frags:
                return 2
        rc = merge_and_report(args, mod, frags, time.time() - t0)
        return 2 if (bad and rc == 0) else rc
    finally:
        shutil.rmtree(scratch, ignore_errors=True)


def run_replay(args):
    mod = load(args.id)
    with open(args.replay) as f:
        rec = json.load(f)
    stall = getattr(mod, "STALL_LIMIT", None)
    if stall and not os.environ.get("VERIF_REPLAY_INNER"):
        # a saved case may be one that never returns: replay it in a child that can be killed
        cmd = [sys.executable, "-B", os.path.abspath(__file__), args.id, "--seed", str(args.seed), "--replay", args.replay]
        try:
            return subprocess.run(cmd, env=dict(os.environ, VERIF_REPLAY_INNER="1"), timeout=stall).returncode
        except subprocess.TimeoutExpired:
            print("VIOLATION property=%s replay=%s" % (args.id, args.replay))
            print("  signature: %s" % rec["signature"])
            print("  detail: the call had not returned after %d s" % stall)
            return 1
    ctx = common.Ctx(args.id, "quick", args.seed, 0, 1, mod)
    ctx.replaying = True
    if hasattr(mod, "setup_for_subject"):
        mod.setup_for_subject(ctx, rec["subject"])
    elif hasattr(mod, "setup"):
        mod.setup(ctx)
    v = common.replay_case(ctx, rec["subject"], common.dec(rec["case"]))
    if v is None:
        print("replay: case passes on this tree (%s)" % rec["signature"])
        return 0
    print("VIOLATION property=%s replay=%s" % (args.id, args.replay))
    print("  signature: %s" % ctx.signature(rec["subject"], v.kind))
    print("  detail: %s" % json.dumps(common.enc(v.detail))[:1200])
    return 1


def main():
    ap = argparse.ArgumentParser()
    ap.add_argument("id")
    ap.add_argument("--tier", default=os.environ.get("VERIF_TIER", "quick"), choices=["quick", "thorough"])
    ap.add_argument("--seed", type=int, default=int(os.environ.get("VERIF_SEED", "1") or 1))
    ap.add_argument("--replay")
    ap.add_argument("--shard")
    ap.add_argument("--frag")
    args = ap.parse_args()
    if args.id == "selftest":
        from pbt.stdspec import selftest
        return selftest.main()
    if args.id not in PROPS:
        print("unknown property id " + args.id, file=sys.stderr)
        return 2
    try:
        if args.replay:
            return run_replay(args)
        if args.shard:
            return run_shard(args)
        return run_parent(args)
    except common.HarnessError as e:
        print("HARNESS-ERROR: %s" % e, file=sys.stderr)
        return 2
    except Exception:  # noqa
        traceback.print_exc()
        return 2


if __name__ == "__main__":
    sys.exit(main())
