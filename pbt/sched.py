"""Controlled thread scheduler (C09): threads run one at a time; a sys.settrace local trace
function on frames of pyscsi files counts 'line' events globally and hands the baton to
another thread at the event indices a schedule prescribes.  An execution is therefore a
deterministic function of (programs, schedule)."""
import os
import sys
import threading

_MARK = os.sep + "pyscsi" + os.sep


class Scheduler(object):
    def __init__(self, programs, schedule, max_events=200000):
        """programs: list of callables (one per thread); schedule: list of (event_index, thread)."""
        self.programs = programs
        self.switch_at = {}
        for idx, t in schedule:
            self.switch_at.setdefault(idx, t)
        self.n = len(programs)
        self.sems = [threading.Semaphore(0) for _ in programs]
        self.done = [False] * self.n
        self.results = [None] * self.n
        self.errors = [None] * self.n
        self.events = 0
        self.max_events = max_events
        self.current = 0
        self.switches = []  # (event index, from, to, inside constructor?)
        self.lock_broken = False

    # -- tracing ------------------------------------------------------------------------
    def _global_trace(self, frame, event, arg):
        fn = frame.f_code.co_filename
        if _MARK in fn and (os.sep + "pbt" + os.sep) not in fn:
            return self._local_trace
        return None

    def _local_trace(self, frame, event, arg):
        if event == "line":
            self.events += 1
            t = self.switch_at.get(self.events)
            if t is not None:
                self._switch(t % self.n, frame)
        return self._local_trace

    @staticmethod
    def _in_constructor(frame):
        f = frame
        while f is not None:
            name = f.f_code.co_name
            if name in ("__init__", "build_cdb", "marshall_cdb", "encode_dict", "init_cdb") and _MARK in f.f_code.co_filename:
                return True
            f = f.f_back
        return False

    def _next_runnable(self, preferred):
        for k in range(self.n):
            t = (preferred + k) % self.n
            if not self.done[t]:
                return t
        return None

    def _switch(self, target, frame):
        me = self.current
        t = self._next_runnable(target)
        if t is None or t == me:
            return
        self.switches.append((self.events, me, t, self._in_constructor(frame)))
        self.current = t
        self.sems[t].release()
        self.sems[me].acquire()

    # -- threads ------------------------------------------------------------------------
    def _body(self, i):
        self.sems[i].acquire()
        sys.settrace(self._global_trace)
        try:
            self.results[i] = self.programs[i]()
        except BaseException as e:  # noqa
            self.errors[i] = e
        finally:
            sys.settrace(None)
            self.done[i] = True
            nxt = self._next_runnable(i + 1)
            if nxt is not None:
                self.current = nxt
                self.sems[nxt].release()

    def run(self, timeout=60):
        threads = [threading.Thread(target=self._body, args=(i,), daemon=True) for i in range(self.n)]
        for t in threads:
            t.start()
        self.current = 0
        self.sems[0].release()
        for t in threads:
            t.join(timeout)
            if t.is_alive():
                self.lock_broken = True
        return self.results, self.errors
