"""Stand-ins for the external C bindings (cython-sgio, cython-iscsi).

They expose exactly the call surface the library uses (DESIGN.md Appendix D) and forward
every command to a handler installed by the harness.  `install()` must run before the
first `import pyscsi` of a process."""
import importlib.abc
import sys
import types

LOG = []  # every stand-in call: tuples whose first element names the event


class _Blocker(importlib.abc.MetaPathFinder):
    def __init__(self, names):
        self.names = set(names)

    def find_spec(self, name, path=None, target=None):
        if name in self.names:
            raise ImportError("binding %r is not installed (verif configuration)" % name)
        return None


def install(sgio=True, iscsi=True):
    blocked = []
    if sgio:
        from pbt.standins import sgio as m

        sys.modules["sgio"] = m
    else:
        sys.modules.pop("sgio", None)
        blocked.append("sgio")
    if iscsi:
        from pbt.standins import iscsi as m2

        sys.modules["iscsi"] = m2
    else:
        sys.modules.pop("iscsi", None)
        blocked.append("iscsi")
    if blocked:
        sys.meta_path.insert(0, _Blocker(blocked))
