"""Stand-in for cython-iscsi as python-scsi uses it (Context, URL, Task and the constants)."""
from pbt import standins

handler = None  # callable(cdb, dataout, datain) -> (status, sense-bytes-or-None)
routes = {}  # url -> handler (takes precedence over the global handler)
connect_error = None  # exception instance to raise from connect (fault injection)

SCSI_XFER_NONE = 0
SCSI_XFER_READ = 1
SCSI_XFER_WRITE = 2
ISCSI_SESSION_DISCOVERY = 1
ISCSI_SESSION_NORMAL = 2
ISCSI_HEADER_DIGEST_NONE = 0
ISCSI_HEADER_DIGEST_NONE_CRC32C = 1
ISCSI_HEADER_DIGEST_CRC32C_NONE = 2
ISCSI_HEADER_DIGEST_CRC32C = 3


class Context(object):
    def __init__(self, initiator_name):
        self.initiator_name = initiator_name
        self.connected = 0
        self.disconnected = 0
        standins.LOG.append(("iscsi.Context", id(self), initiator_name))

    def set_targetname(self, t):
        standins.LOG.append(("iscsi.set_targetname", id(self), t))

    def set_session_type(self, t):
        standins.LOG.append(("iscsi.set_session_type", id(self), t))

    def set_header_digest(self, t):
        standins.LOG.append(("iscsi.set_header_digest", id(self), t))

    def connect(self, portal, lun):
        standins.LOG.append(("iscsi.connect", id(self), portal, lun))
        if connect_error is not None:
            raise connect_error
        self.connected += 1

    def disconnect(self):
        standins.LOG.append(("iscsi.disconnect", id(self)))
        self.disconnected += 1

    def command(self, lun, task, data_out, data_in):
        standins.LOG.append(("iscsi.command", id(self), lun, bytes(task.cdb), task.direction,
                             task.xferlen, None if data_out is None else len(data_out),
                             None if data_in is None else len(data_in)))
        if self.disconnected or not self.connected:
            raise RuntimeError("iscsi context is not connected")
        h = routes.get(getattr(self, "url", None))
        if h is not None:
            status, sense = h(task.cdb, data_out, data_in)
        elif handler is None:
            task.status = 0
            return
        else:
            status, sense = handler(task.cdb, data_out, data_in, task=task)
        task.status = status
        if status == 0x02:
            task.raw_sense = bytes(sense or b"")


class URL(object):
    def __init__(self, context, url):
        standins.LOG.append(("iscsi.URL", id(context), url))
        self.url = url
        context.url = url
        rest = url[len("iscsi://"):] if url.startswith("iscsi://") else url
        parts = rest.split("/")
        self.portal = parts[0] if parts else ""
        self.target = parts[1] if len(parts) > 1 else ""
        try:
            self.lun = int(parts[2]) if len(parts) > 2 else 0
        except ValueError:
            self.lun = 0


class Task(object):
    def __init__(self, cdb, direction, xferlen):
        self.cdb = bytes(cdb)
        self.direction = direction
        self.xferlen = xferlen
        self.status = None
