"""Stand-in for cython-sgio as python-scsi uses it.

Like the real binding it reports CHECK CONDITION by raising CheckConditionError(sense) and
every other non-GOOD outcome by UnspecifiedError (the binding conveys no status byte)."""
import os

from pbt import standins

handler = None  # callable(cdb, dataout, datain) -> (status, sense-bytes-or-None)
routes = {}  # device node path -> handler (takes precedence over the global handler)
residual = 0  # what execute() returns for GOOD status (the real binding returns the residual count)


class CheckConditionError(Exception):
    def __init__(self, sense):
        Exception.__init__(self, "CHECK CONDITION")
        self.sense = sense


class UnspecifiedError(Exception):
    pass


def execute(fid, cdb, data_out, data_in, max_sense_data_length=32, return_sense_buffer=False):
    closed = getattr(fid, "closed", None)
    ino = None
    try:
        if not closed:
            ino = os.fstat(fid.fileno()).st_ino
    except Exception:  # noqa
        ino = None
    standins.LOG.append(("sgio.execute", id(fid), closed, ino, bytes(cdb),
                         None if data_out is None else len(data_out),
                         None if data_in is None else len(data_in), fid))
    if closed:
        raise ValueError("I/O operation on closed file")
    mode = getattr(fid, "mode", "rb+")
    if data_out is not None and len(data_out) and "+" not in mode and "w" not in mode:
        # the sg driver refuses data-out transfers on descriptors opened read-only
        raise PermissionError(1, "SG_IO: data-out transfer on a read-only descriptor")
    h = routes.get(getattr(fid, "name", None), handler)
    if h is None:
        return residual
    status, sense = h(cdb, data_out, data_in)
    if status == 0x00:
        return residual
    if status == 0x02:
        raise CheckConditionError(bytes(sense or b""))
    raise UnspecifiedError()
