"""Simulated standards-conformant target behind the binding stand-ins.

It decodes CDBs with pbt.stdspec (never with the library), keeps its own sparse block store,
answers INQUIRY / READ CAPACITY from its configured identity and geometry, audits the
transport-level buffer lengths against what the CDB announces, and lets a test inject the
status and sense of upcoming commands."""
from pbt.stdspec import cdb as S
from pbt.stdspec import responses as R

GOOD, CHECK_CONDITION = 0x00, 0x02


class Target(object):
    def __init__(self, blocksize=512, nblocks=1 << 20, devtype=0, qualifier=0, identity=None, vpd=None):
        self.blocksize = blocksize
        self.nblocks = nblocks
        self.devtype = devtype
        self.qualifier = qualifier
        self.identity = identity or {}
        self.vpd = vpd or {}
        self.writes = []  # (lba, nblocks, mode, data) in arrival order; mode 'w' or 'same'
        self.log = []  # decoded commands
        self.inject = []  # queue of (status, sense) for the next commands; None = process normally
        self.protocol_errors = []  # transport-level disagreements with the CDB

    # -- store ------------------------------------------------------------------------------
    def block(self, lba):
        for start, n, mode, data in reversed(self.writes):
            if start <= lba < start + n:
                if mode == "same":
                    return data
                off = (lba - start) * self.blocksize
                return data[off:off + self.blocksize]
        return bytes(self.blocksize)

    def read(self, lba, n):
        return b"".join(self.block(lba + i) for i in range(n))

    # -- helpers ----------------------------------------------------------------------------
    def illegal(self, asc=0x24, ascq=0x00):
        return CHECK_CONDITION, bytes(R.sense_fixed(0x05, asc, ascq))

    def perr(self, what, **kw):
        self.protocol_errors.append(dict(kw, what=what))
        return CHECK_CONDITION, bytes(R.sense_fixed(0x0B, 0x4B, 0x00))  # ABORTED COMMAND, DATA PHASE ERROR

    @staticmethod
    def fill(datain, data):
        n = min(len(datain), len(data))
        datain[:n] = data[:n]

    # -- entry ------------------------------------------------------------------------------
    def handle(self, cdb, dataout, datain):
        cdb = bytes(cdb)
        rec = {"cdb": cdb, "dataout_len": None if dataout is None else len(dataout),
               "datain_len": None if datain is None else len(datain)}
        self.log.append(rec)
        if self.inject:
            inj = self.inject.pop(0)
            if inj is not None:
                rec["injected"] = inj[0]
                return inj
        op = cdb[0]
        dout = b"" if dataout is None else bytes(dataout)
        din_len = 0 if datain is None else len(datain)
        if op == 0x00 and len(cdb) == 6:
            rec["name"] = "TEST UNIT READY"
            return GOOD, None
        if op == 0x12 and len(cdb) == 6:
            return self.inquiry(cdb, datain, rec)
        if op == 0x25 and len(cdb) == 10:
            rec["name"] = "READ CAPACITY(10)"
            last = min(self.nblocks - 1, 0xFFFFFFFF)
            self.fill(datain, R.read_capacity10({"returned_lba": last, "block_length": self.blocksize}))
            return GOOD, None
        if op == 0x9E and len(cdb) == 16 and (cdb[1] & 0x1F) == 0x10:
            rec["name"] = "READ CAPACITY(16)"
            f = S.decode("READ CAPACITY(16)", cdb)
            if din_len != f["ALLOCATION LENGTH"]:
                return self.perr("datain length != ALLOCATION LENGTH", cdb=cdb.hex(), got=din_len)
            v = dict(self.identity.get("readcap16", {}), returned_lba=self.nblocks - 1, block_length=self.blocksize)
            self.fill(datain, R.read_capacity16(v))
            return GOOD, None
        for name in ("READ(10)", "READ(12)", "READ(16)"):
            r = S.CDB[name]
            if op == r["opcode"] and len(cdb) == r["length"]:
                f = S.decode(name, cdb)
                rec.update(name=name, fields=f)
                if S.audit(name, cdb):
                    return self.illegal()
                lba, tl = f["LBA"], f["TRANSFER LENGTH"]
                if lba + tl > self.nblocks:
                    return self.illegal(0x21, 0x00)
                if din_len != tl * self.blocksize or len(dout):
                    return self.perr("READ buffer lengths disagree with the CDB", cdb=cdb.hex(), datain=din_len,
                                     dataout=len(dout), want=tl * self.blocksize)
                if tl:
                    datain[:] = self.read(lba, tl)
                return GOOD, None
        for name in ("WRITE(10)", "WRITE(12)", "WRITE(16)"):
            r = S.CDB[name]
            if op == r["opcode"] and len(cdb) == r["length"]:
                f = S.decode(name, cdb)
                rec.update(name=name, fields=f)
                if S.audit(name, cdb):
                    return self.illegal()
                lba, tl = f["LBA"], f["TRANSFER LENGTH"]
                if lba + tl > self.nblocks:
                    return self.illegal(0x21, 0x00)
                if len(dout) != tl * self.blocksize or din_len:
                    return self.perr("WRITE buffer lengths disagree with the CDB", cdb=cdb.hex(), datain=din_len,
                                     dataout=len(dout), want=tl * self.blocksize)
                if tl:
                    self.writes.append((lba, tl, "w", dout))
                return GOOD, None
        for name in ("WRITE SAME(10)", "WRITE SAME(16)"):
            r = S.CDB[name]
            if op == r["opcode"] and len(cdb) == r["length"]:
                f = S.decode(name, cdb)
                rec.update(name=name, fields=f)
                if S.audit(name, cdb):
                    return self.illegal()
                lba, nb = f["LBA"], f["NUMBER OF LOGICAL BLOCKS"]
                if nb == 0:
                    return self.illegal()  # WSNZ = 1: zero is not supported
                if f.get("ANCHOR") and not f.get("UNMAP"):
                    return self.illegal()
                if lba + nb > self.nblocks:
                    return self.illegal(0x21, 0x00)
                if f.get("NDOB"):
                    if len(dout) or din_len:
                        return self.perr("WRITE SAME with NDOB carries data", cdb=cdb.hex(), dataout=len(dout))
                    data = bytes(self.blocksize)
                else:
                    if len(dout) != self.blocksize or din_len:
                        return self.perr("WRITE SAME data-out is not one block", cdb=cdb.hex(), dataout=len(dout),
                                         want=self.blocksize)
                    data = dout
                self.writes.append((lba, nb, "same", data))
                return GOOD, None
        for name in ("SYNCHRONIZE CACHE(10)", "SYNCHRONIZE CACHE(16)"):
            r = S.CDB[name]
            if op == r["opcode"] and len(cdb) == r["length"]:
                f = S.decode(name, cdb)
                rec.update(name=name, fields=f)
                if S.audit(name, cdb):
                    return self.illegal()
                if len(dout) or din_len:
                    return self.perr("SYNCHRONIZE CACHE carries data", cdb=cdb.hex())
                if f["LBA"] + f["NUMBER OF LOGICAL BLOCKS"] > self.nblocks:
                    return self.illegal(0x21, 0x00)
                return GOOD, None
        rec["name"] = "unsupported"
        return self.illegal(0x20, 0x00)

    def inquiry(self, cdb, datain, rec):
        f = S.decode("INQUIRY", cdb)
        rec.update(name="INQUIRY", fields=f)
        if S.audit("INQUIRY", cdb):
            return self.illegal()
        if (0 if datain is None else len(datain)) != f["ALLOCATION LENGTH"]:
            return self.perr("datain length != ALLOCATION LENGTH", cdb=cdb.hex(), got=len(datain))
        if not f["EVPD"]:
            if f["PAGE CODE"]:
                return self.illegal()
            v = dict(self.identity.get("std", {}), peripheral_device_type=self.devtype,
                     peripheral_qualifier=self.qualifier)
            self.fill(datain, R.std_inquiry(v, self.identity.get("std_len", 96)))
            return GOOD, None
        page = f["PAGE CODE"]
        kw = {"pq": self.qualifier, "pdt": self.devtype}
        if page == 0x00:
            self.fill(datain, R.vpd_supported(sorted({0x00, 0x80, 0x83, 0xB0} | set(self.vpd.get("extra_pages", []))), **kw))
        elif page == 0x80:
            self.fill(datain, R.vpd_serial(self.vpd.get("serial", b"VERIF0001"), **kw))
        elif page == 0x83:
            self.fill(datain, R.vpd_device_identification(self.vpd.get("designators", []), **kw))
        elif page == 0xB0:
            self.fill(datain, R.vpd_block_limits(self.vpd.get("block_limits", {}), **kw))
        else:
            return self.illegal()
        return GOOD, None
