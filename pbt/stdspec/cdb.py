"""Independent statement of the CDB layouts (DESIGN.md Appendix B).

Written from SPC-4/5, SBC-3, SMC-3, MMC-6, SAT-3 tables; never imports pyscsi.
A field is (byte, msb, width): `byte` is the index of the field's first (most significant)
byte, `msb` the bit number (7..0) of its most significant bit in that byte, `width` its
width in bits; multi-byte fields are big-endian and continue into the following bytes."""


def F(byte, msb=7, width=8):
    return (byte, msb, width)


def B(byte, nbytes):
    return (byte, 7, 8 * nbytes)


def bit(byte, n):
    return (byte, n, 1)


def rec(length, opcode, fields, sa=None, sa_field=None, fixed=None):
    return {"length": length, "opcode": opcode, "fields": fields, "sa": sa,
            "sa_field": sa_field or (F(1, 4, 5) if sa is not None else None),
            "fixed": fixed or {}}


_RW_BYTE1_R = {"RDPROTECT": F(1, 7, 3), "DPO": bit(1, 4), "FUA": bit(1, 3), "RARC": bit(1, 2)}
_RW_BYTE1_W = {"WRPROTECT": F(1, 7, 3), "DPO": bit(1, 4), "FUA": bit(1, 3)}
_WS_BYTE1 = {"WRPROTECT": F(1, 7, 3), "ANCHOR": bit(1, 4), "UNMAP": bit(1, 3)}

_ATA_BYTE2 = {"OFF_LINE": F(2, 7, 2), "CK_COND": bit(2, 5), "T_TYPE": bit(2, 4), "T_DIR": bit(2, 3),
              "BYTE_BLOCK": bit(2, 2), "T_LENGTH": F(2, 1, 2)}

CDB = {
    "TEST UNIT READY": rec(6, 0x00, {}),
    "INQUIRY": rec(6, 0x12, {"EVPD": bit(1, 0), "PAGE CODE": F(2), "ALLOCATION LENGTH": B(3, 2)}),
    "MODE SENSE(6)": rec(6, 0x1A, {"DBD": bit(1, 3), "PC": F(2, 7, 2), "PAGE CODE": F(2, 5, 6),
                                   "SUBPAGE CODE": F(3), "ALLOCATION LENGTH": F(4)}),
    "MODE SENSE(10)": rec(10, 0x5A, {"LLBAA": bit(1, 4), "DBD": bit(1, 3), "PC": F(2, 7, 2),
                                     "PAGE CODE": F(2, 5, 6), "SUBPAGE CODE": F(3),
                                     "ALLOCATION LENGTH": B(7, 2)}),
    "MODE SELECT(6)": rec(6, 0x15, {"PF": bit(1, 4), "SP": bit(1, 0), "PARAMETER LIST LENGTH": F(4)}),
    "MODE SELECT(10)": rec(10, 0x55, {"PF": bit(1, 4), "SP": bit(1, 0), "PARAMETER LIST LENGTH": B(7, 2)}),
    "PREVENT ALLOW MEDIUM REMOVAL": rec(6, 0x1E, {"PREVENT": F(4, 1, 2)}),
    "READ CAPACITY(10)": rec(10, 0x25, {}),
    "READ(10)": rec(10, 0x28, dict(_RW_BYTE1_R, **{"LBA": B(2, 4), "GROUP NUMBER": F(6, 4, 5), "TRANSFER LENGTH": B(7, 2)})),
    "READ(12)": rec(12, 0xA8, dict(_RW_BYTE1_R, **{"LBA": B(2, 4), "TRANSFER LENGTH": B(6, 4), "GROUP NUMBER": F(10, 4, 5)})),
    "READ(16)": rec(16, 0x88, dict(_RW_BYTE1_R, **{"LBA": B(2, 8), "TRANSFER LENGTH": B(10, 4), "GROUP NUMBER": F(14, 4, 5)})),
    "WRITE(10)": rec(10, 0x2A, dict(_RW_BYTE1_W, **{"LBA": B(2, 4), "GROUP NUMBER": F(6, 4, 5), "TRANSFER LENGTH": B(7, 2)})),
    "WRITE(12)": rec(12, 0xAA, dict(_RW_BYTE1_W, **{"LBA": B(2, 4), "TRANSFER LENGTH": B(6, 4), "GROUP NUMBER": F(10, 4, 5)})),
    "WRITE(16)": rec(16, 0x8A, dict(_RW_BYTE1_W, **{"LBA": B(2, 8), "TRANSFER LENGTH": B(10, 4), "GROUP NUMBER": F(14, 4, 5)})),
    "WRITE SAME(10)": rec(10, 0x41, dict(_WS_BYTE1, **{"LBA": B(2, 4), "GROUP NUMBER": F(6, 4, 5), "NUMBER OF LOGICAL BLOCKS": B(7, 2)})),
    "WRITE SAME(16)": rec(16, 0x93, dict(_WS_BYTE1, **{"NDOB": bit(1, 0), "LBA": B(2, 8), "NUMBER OF LOGICAL BLOCKS": B(10, 4), "GROUP NUMBER": F(14, 4, 5)})),
    "SYNCHRONIZE CACHE(10)": rec(10, 0x35, {"IMMED": bit(1, 1), "LBA": B(2, 4), "GROUP NUMBER": F(6, 4, 5), "NUMBER OF LOGICAL BLOCKS": B(7, 2)}),
    "SYNCHRONIZE CACHE(16)": rec(16, 0x91, {"IMMED": bit(1, 1), "LBA": B(2, 8), "NUMBER OF LOGICAL BLOCKS": B(10, 4), "GROUP NUMBER": F(14, 4, 5)}),
    "READ CAPACITY(16)": rec(16, 0x9E, {"ALLOCATION LENGTH": B(10, 4)}, sa=0x10),
    "GET LBA STATUS": rec(16, 0x9E, {"STARTING LBA": B(2, 8), "ALLOCATION LENGTH": B(10, 4)}, sa=0x12),
    "REPORT LUNS": rec(12, 0xA0, {"SELECT REPORT": F(2), "ALLOCATION LENGTH": B(6, 4)}),
    "REPORT PRIORITY": rec(12, 0xA3, {"PRIORITY REPORTED": F(2, 7, 2), "ALLOCATION LENGTH": B(6, 4)}, sa=0x0E),
    "REPORT TARGET PORT GROUPS": rec(12, 0xA3, {"PARAMETER DATA FORMAT": F(1, 7, 3), "ALLOCATION LENGTH": B(6, 4)}, sa=0x0A),
    "PERSISTENT RESERVE IN": rec(10, 0x5E, {"SERVICE ACTION": F(1, 4, 5), "ALLOCATION LENGTH": B(7, 2)}),
    "PERSISTENT RESERVE OUT": rec(10, 0x5F, {"SERVICE ACTION": F(1, 4, 5), "SCOPE": F(2, 7, 4), "TYPE": F(2, 3, 4),
                                             "PARAMETER LIST LENGTH": B(5, 4)}),
    "EXTENDED COPY(LID1)": rec(16, 0x83, {"PARAMETER LIST LENGTH": B(10, 4)}, sa=0x00),
    "EXTENDED COPY(LID4)": rec(16, 0x83, {"PARAMETER LIST LENGTH": B(10, 4)}, sa=0x01),
    "ATA PASS-THROUGH(12)": rec(12, 0xA1, dict(_ATA_BYTE2, **{
        "PROTOCOL": F(1, 4, 4), "FEATURES": F(3), "COUNT": F(4), "LBA(7:0)": F(5), "LBA(15:8)": F(6),
        "LBA(23:16)": F(7), "DEVICE": F(8), "COMMAND": F(9), "CONTROL": F(11)})),
    "ATA PASS-THROUGH(16)": rec(16, 0x85, dict(_ATA_BYTE2, **{
        "PROTOCOL": F(1, 4, 4), "EXTEND": bit(1, 0), "FEATURES": B(3, 2), "COUNT": B(5, 2),
        "LBA(31:24)": F(7), "LBA(7:0)": F(8), "LBA(39:32)": F(9), "LBA(15:8)": F(10),
        "LBA(47:40)": F(11), "LBA(23:16)": F(12), "DEVICE": F(13), "COMMAND": F(14), "CONTROL": F(15)})),
    "EXCHANGE MEDIUM": rec(12, 0xA6, {"TRANSPORT ELEMENT ADDRESS": B(2, 2), "SOURCE ADDRESS": B(4, 2),
                                      "FIRST DESTINATION ADDRESS": B(6, 2), "SECOND DESTINATION ADDRESS": B(8, 2),
                                      "INV1": bit(10, 1), "INV2": bit(10, 0)}),
    "INITIALIZE ELEMENT STATUS": rec(6, 0x07, {}),
    "INITIALIZE ELEMENT STATUS WITH RANGE": rec(10, 0x37, {"FAST": bit(1, 1), "RANGE": bit(1, 0),
                                                           "STARTING ELEMENT ADDRESS": B(2, 2),
                                                           "NUMBER OF ELEMENTS": B(6, 2)}),
    "MOVE MEDIUM": rec(12, 0xA5, {"TRANSPORT ELEMENT ADDRESS": B(2, 2), "SOURCE ADDRESS": B(4, 2),
                                  "DESTINATION ADDRESS": B(6, 2), "INVERT": bit(10, 0)}),
    "OPEN/CLOSE IMPORT/EXPORT ELEMENT": rec(6, 0x1B, {"ELEMENT ADDRESS": B(2, 2), "ACTION CODE": F(4, 4, 5)}),
    "POSITION TO ELEMENT": rec(10, 0x2B, {"TRANSPORT ELEMENT ADDRESS": B(2, 2), "DESTINATION ELEMENT ADDRESS": B(4, 2),
                                          "INVERT": bit(8, 0)}),
    "READ ELEMENT STATUS": rec(12, 0xB8, {"VOLTAG": bit(1, 4), "ELEMENT TYPE CODE": F(1, 3, 4),
                                          "STARTING ELEMENT ADDRESS": B(2, 2), "NUMBER OF ELEMENTS": B(4, 2),
                                          "CURDATA": bit(6, 1), "DVCID": bit(6, 0), "ALLOCATION LENGTH": B(7, 3)}),
    "READ CD": rec(12, 0xBE, {"EXPECTED SECTOR TYPE": F(1, 4, 3), "DAP": bit(1, 1), "STARTING LBA": B(2, 4),
                              "TRANSFER LENGTH": B(6, 3), "MAIN CHANNEL SELECTION": F(9, 7, 5),
                              "C2 ERROR INFORMATION": F(9, 2, 2), "SUB-CHANNEL SELECTION": F(10, 2, 3)}),
    "READ DISC INFORMATION": rec(10, 0x51, {"DATA TYPE": F(1, 2, 3), "ALLOCATION LENGTH": B(7, 2)}),
}


def span(field):
    """absolute bit positions [lo, hi] of a field counted from the MSB of byte 0."""
    byte, msb, width = field
    start = 8 * byte + (7 - msb)
    return start, start + width - 1


def get(cdb, field):
    start, end = span(field)
    total = 8 * len(cdb)
    if end >= total:
        return None
    return (int.from_bytes(bytes(cdb), "big") >> (total - 1 - end)) & ((1 << field[2]) - 1)


def width(name, fieldname):
    return CDB[name]["fields"][fieldname][2]


def decode(name, cdb):
    r = CDB[name]
    out = {k: get(cdb, f) for k, f in r["fields"].items()}
    return out


def defined_mask(name):
    r = CDB[name]
    total = 8 * r["length"]
    m = 0xFF << (total - 8)  # operation code
    if r["sa_field"] is not None:
        s, e = span(r["sa_field"])
        m |= ((1 << r["sa_field"][2]) - 1) << (total - 1 - e)
    for f in r["fields"].values():
        s, e = span(f)
        m |= ((1 << f[2]) - 1) << (total - 1 - e)
    return m


def ata_lba(fields):
    """reassemble the ATA LBA from the SAT byte fields of a decoded pass-through CDB."""
    v = 0
    for k, val in fields.items():
        if k.startswith("LBA("):
            hi, lo = k[4:-1].split(":")
            v |= val << int(lo)
    return v


def audit(name, cdb, opcode=None):
    """Structural audit of a CDB against record `name`: returns a list of problems."""
    r = CDB[name]
    problems = []
    if not isinstance(cdb, (bytes, bytearray)):
        problems.append(("cdb_type", type(cdb).__name__))
        return problems
    if len(cdb) != r["length"]:
        problems.append(("cdb_length", len(cdb), r["length"]))
        return problems
    want_op = r["opcode"] if opcode is None else opcode
    if cdb[0] != want_op:
        problems.append(("opcode", cdb[0], want_op))
    if r["sa"] is not None and get(cdb, r["sa_field"]) != r["sa"]:
        problems.append(("service_action", get(cdb, r["sa_field"]), r["sa"]))
    stray = int.from_bytes(bytes(cdb), "big") & ~defined_mask(name)
    if stray:
        problems.append(("undefined_bits_set", "%0*X" % (2 * r["length"], stray)))
    return problems


def selftest():
    from pbt.stdspec import opcodes

    problems = []
    for name, r in CDB.items():
        total = 8 * r["length"]
        if opcodes.cdb_length(r["opcode"]) != r["length"]:
            problems.append("cdb %s: length %d contradicts the group rule" % (name, r["length"]))
        used = 0xFF << (total - 8)
        allf = dict(r["fields"])
        if r["sa"] is not None and "SERVICE ACTION" not in allf:
            allf["SERVICE ACTION*"] = r["sa_field"]
        for k, f in allf.items():
            s, e = span(f)
            if e >= total or f[1] > 7 or f[2] < 1:
                problems.append("cdb %s field %s out of range" % (name, k))
                continue
            m = ((1 << f[2]) - 1) << (total - 1 - e)
            if used & m:
                problems.append("cdb %s field %s overlaps another field" % (name, k))
            used |= m
        # CONTROL byte (last) must stay unused except where SAT defines it
        if "CONTROL" not in r["fields"] and used & 0xFF:
            problems.append("cdb %s uses the CONTROL byte" % name)
    return problems
