"""T10 operation codes, service actions, status codes and the SAM CDB-length rule.

Written from the T10 "SCSI Operation Codes" list (op-num) and SPC-4/SBC-3/SSC-4/SMC-3/MMC-6,
independently of the repository.  Names are the UPPER_SNAKE spelling of the standard command
names (the join key of property C14: "under a standard command name").  A name missing here is
*not judged*."""

# ---- SPC (primary commands; offered by every device type that lists them) ----------------
SPC = {
    "TEST_UNIT_READY": 0x00,
    "REQUEST_SENSE": 0x03,
    "INQUIRY": 0x12,
    "MODE_SELECT_6": 0x15,
    "RESERVE_6": 0x16,
    "RELEASE_6": 0x17,
    "MODE_SENSE_6": 0x1A,
    "RECEIVE_DIAGNOSTIC_RESULTS": 0x1C,
    "SEND_DIAGNOSTIC": 0x1D,
    "PREVENT_ALLOW_MEDIUM_REMOVAL": 0x1E,
    "WRITE_BUFFER": 0x3B,
    "READ_BUFFER_10": 0x3C,
    "LOG_SELECT": 0x4C,
    "LOG_SENSE": 0x4D,
    "MODE_SELECT_10": 0x55,
    "RESERVE_10": 0x56,
    "RELEASE_10": 0x57,
    "MODE_SENSE_10": 0x5A,
    "PERSISTENT_RESERVE_IN": 0x5E,
    "PERSISTENT_RESERVE_OUT": 0x5F,
    "EXTENDED_COPY": 0x83,
    "RECEIVE_COPY_RESULTS": 0x84,
    "ACCESS_CONTROL_IN": 0x86,
    "ACCESS_CONTROL_OUT": 0x87,
    "READ_ATTRIBUTE": 0x8C,
    "WRITE_ATTRIBUTE": 0x8D,
    "READ_BUFFER_16": 0x9B,
    "REPORT_LUNS": 0xA0,
    "SECURITY_PROTOCOL_IN": 0xA2,
    "MAINTENANCE_IN": 0xA3,
    "MAINTENANCE_OUT": 0xA4,
    "READ_MEDIA_SERIAL_NUMBER": 0xAB,
    "SECURITY_PROTOCOL_OUT": 0xB5,
}

SBC = dict(SPC)
SBC.update({
    "FORMAT_UNIT": 0x04,
    "REASSIGN_BLOCKS": 0x07,
    "READ_6": 0x08,
    "WRITE_6": 0x0A,
    "START_STOP_UNIT": 0x1B,
    "READ_CAPACITY_10": 0x25,
    "READ_10": 0x28,
    "WRITE_10": 0x2A,
    "WRITE_AND_VERIFY_10": 0x2E,
    "VERIFY_10": 0x2F,
    "PRE_FETCH_10": 0x34,
    "SYNCHRONIZE_CACHE_10": 0x35,
    "READ_DEFECT_DATA_10": 0x37,
    "READ_LONG_10": 0x3E,
    "WRITE_LONG_10": 0x3F,
    "WRITE_SAME_10": 0x41,
    "UNMAP": 0x42,
    "XDWRITE_10": 0x50,
    "XPWRITE_10": 0x51,
    "XDREAD_10": 0x52,
    "XDWRITEREAD_10": 0x53,
    "ATA_PASS_THROUGH_16": 0x85,
    "READ_16": 0x88,
    "COMPARE_AND_WRITE": 0x89,
    "WRITE_16": 0x8A,
    "ORWRITE_16": 0x8B,
    "WRITE_AND_VERIFY_16": 0x8E,
    "VERIFY_16": 0x8F,
    "PRE_FETCH_16": 0x90,
    "SYNCHRONIZE_CACHE_16": 0x91,
    "WRITE_SAME_16": 0x93,
    "READ_LONG_16": 0x9E,
    "WRITE_LONG_16": 0x9F,
    "ATA_PASS_THROUGH_12": 0xA1,
    "READ_12": 0xA8,
    "WRITE_12": 0xAA,
    "WRITE_AND_VERIFY_12": 0xAE,
    "VERIFY_12": 0xAF,
    "READ_DEFECT_DATA_12": 0xB7,
    "REDUNDANCY_GROUP_IN": 0xBA,
    "REDUNDANCY_GROUP_OUT": 0xBB,
    "SPARE_IN": 0xBC,
    "SPARE_OUT": 0xBD,
    "VOLUME_SET_IN": 0xBE,
    "VOLUME_SET_OUT": 0xBF,
})

SSC = dict(SPC)
SSC.update({
    "REWIND": 0x01,
    "FORMAT_MEDIUM": 0x04,
    "READ_BLOCK_LIMITS": 0x05,
    "READ_6": 0x08,
    "WRITE_6": 0x0A,
    "SET_CAPACITY": 0x0B,
    "READ_REVERSE_6": 0x0F,
    "WRITE_FILEMARKS_6": 0x10,
    "SPACE_6": 0x11,
    "VERIFY_6": 0x13,
    "RECOVER_BUFFERED_DATA": 0x14,
    "ERASE_6": 0x19,
    "LOAD_UNLOAD": 0x1B,
    "LOCATE_10": 0x2B,
    "READ_POSITION": 0x34,
    "REPORT_DENSITY_SUPPORT": 0x44,
    "WRITE_FILEMARKS_16": 0x80,
    "READ_REVERSE_16": 0x81,
    "READ_16": 0x88,
    "WRITE_16": 0x8A,
    "VERIFY_16": 0x8F,
    "SPACE_16": 0x91,
    "LOCATE_16": 0x92,
    "ERASE_16": 0x93,
    "MOVE_MEDIUM_ATTACHED": 0xA7,
    "READ_ELEMENT_STATUS_ATTACHED": 0xB4,
})

SMC = dict(SPC)
SMC.update({
    "INITIALIZE_ELEMENT_STATUS": 0x07,
    "OPEN_CLOSE_IMPORT_EXPORT_ELEMENT": 0x1B,
    "POSITION_TO_ELEMENT": 0x2B,
    "INITIALIZE_ELEMENT_STATUS_WITH_RANGE": 0x37,
    "REPORT_VOLUME_TYPES_SUPPORTED": 0x44,
    "MOVE_MEDIUM": 0xA5,
    "EXCHANGE_MEDIUM": 0xA6,
    "REQUEST_VOLUME_ELEMENT_ADDRESS": 0xB5,
    "SEND_VOLUME_TAG": 0xB6,
    "READ_ELEMENT_STATUS": 0xB8,
    "REDUNDANCY_GROUP_IN": 0xBA,
    "REDUNDANCY_GROUP_OUT": 0xBB,
    "SPARE_IN": 0xBC,
    "SPARE_OUT": 0xBD,
    "VOLUME_SET_IN": 0xBE,
    "VOLUME_SET_OUT": 0xBF,
})
# B5h is SECURITY PROTOCOL OUT in SPC and REQUEST VOLUME ELEMENT ADDRESS in SMC-2: the SMC
# table keeps the SMC meaning, so drop the SPC name there.
del SMC["SECURITY_PROTOCOL_OUT"]

# MMC-6 uses its own (unsuffixed) names for some commands.
MMC = {
    "TEST_UNIT_READY": 0x00,
    "REQUEST_SENSE": 0x03,
    "FORMAT_UNIT": 0x04,
    "INQUIRY": 0x12,
    "START_STOP_UNIT": 0x1B,
    "PREVENT_ALLOW_MEDIUM_REMOVAL": 0x1E,
    "READ_FORMAT_CAPACITIES": 0x23,
    "READ_CAPACITY": 0x25,
    "READ_10": 0x28,
    "WRITE_10": 0x2A,
    "SEEK_10": 0x2B,
    "WRITE_AND_VERIFY_10": 0x2E,
    "VERIFY_10": 0x2F,
    "SYNCHRONIZE_CACHE": 0x35,
    "WRITE_BUFFER": 0x3B,
    "READ_BUFFER_10": 0x3C,
    "READ_TOC_PMA_ATIP": 0x43,
    "GET_CONFIGURATION": 0x46,
    "GET_EVENT_STATUS_NOTIFICATION": 0x4A,
    "READ_DISC_INFORMATION": 0x51,
    "READ_TRACK_INFORMATION": 0x52,
    "RESERVE_TRACK": 0x53,
    "SEND_OPC_INFORMATION": 0x54,
    "MODE_SELECT_10": 0x55,
    "REPAIR_TRACK": 0x58,
    "MODE_SENSE_10": 0x5A,
    "CLOSE_TRACK_SESSION": 0x5B,
    "READ_BUFFER_CAPACITY": 0x5C,
    "SEND_CUE_SHEET": 0x5D,
    "READ_BUFFER_16": 0x9B,
    "REPORT_LUNS": 0xA0,
    "BLANK": 0xA1,
    "SECURITY_PROTOCOL_IN": 0xA2,
    "SEND_KEY": 0xA3,
    "REPORT_KEY": 0xA4,
    "LOAD_UNLOAD_MEDIUM": 0xA6,
    "SET_READ_AHEAD": 0xA7,
    "READ_12": 0xA8,
    "WRITE_12": 0xAA,
    "GET_PERFORMANCE": 0xAC,
    "READ_DISC_STRUCTURE": 0xAD,
    "SECURITY_PROTOCOL_OUT": 0xB5,
    "SET_STREAMING": 0xB6,
    "READ_CD_MSF": 0xB9,
    "SET_CD_SPEED": 0xBB,
    "MECHANISM_STATUS": 0xBD,
    "READ_CD": 0xBE,
    "SEND_DISC_STRUCTURE": 0xBF,
}

TABLES = {"spc": SPC, "sbc": SBC, "ssc": SSC, "smc": SMC, "mmc": MMC}

# ---- service actions (name -> value), keyed by the opcode they belong to ---------------
SERVICE_ACTIONS = {
    0x5E: {  # PERSISTENT RESERVE IN
        "READ_KEYS": 0x00, "READ_RESERVATION": 0x01, "REPORT_CAPABILITIES": 0x02,
        "READ_FULL_STATUS": 0x03,
    },
    0x5F: {  # PERSISTENT RESERVE OUT
        "REGISTER": 0x00, "RESERVE": 0x01, "RELEASE": 0x02, "CLEAR": 0x03, "PREEMPT": 0x04,
        "PREEMPT_AND_ABORT": 0x05, "REGISTER_AND_IGNORE_EXISTING_KEY": 0x06,
        "REGISTER_AND_MOVE": 0x07, "REPLACE_LOST_RESERVATION": 0x08,
    },
    0x9E: {  # SERVICE ACTION IN(16)
        "READ_CAPACITY_16": 0x10, "READ_LONG_16": 0x11, "GET_LBA_STATUS": 0x12,
        "REPORT_REFERRALS": 0x13,
    },
    0x9F: {"WRITE_LONG_16": 0x11},
    0xA3: {  # MAINTENANCE IN
        "REPORT_IDENTIFYING_INFORMATION": 0x05, "REPORT_DEVICE_IDENTIFIER": 0x05,
        "REPORT_TARGET_PORT_GROUPS": 0x0A, "REPORT_ALIASES": 0x0B,
        "REPORT_SUPPORTED_OPERATION_CODES": 0x0C,
        "REPORT_SUPPORTED_TASK_MANAGEMENT_FUNCTIONS": 0x0D,
        "REPORT_PRIORITY": 0x0E, "REPORT_TIMESTAMP": 0x0F,
    },
    0xA4: {  # MAINTENANCE OUT
        "SET_IDENTIFYING_INFORMATION": 0x06, "SET_DEVICE_IDENTIFIER": 0x06,
        "SET_TARGET_PORT_GROUPS": 0x0A, "CHANGE_ALIASES": 0x0B, "SET_PRIORITY": 0x0E,
        "SET_TIMESTAMP": 0x0F,
    },
    0x7F: {  # variable length CDB, SBC service actions
        "XDREAD_32": 0x0003, "XDWRITE_32": 0x0004, "XPWRITE_32": 0x0006,
        "XDWRITEREAD_32": 0x0007, "READ_32": 0x0009, "VERIFY_32": 0x000A,
        "WRITE_32": 0x000B, "WRITE_AND_VERIFY_32": 0x000C, "WRITE_SAME_32": 0x000D,
        "ORWRITE_32": 0x000E,
    },
    0xAB: {"READ_MEDIA_SERIAL_NUMBER": 0x01},
    0x83: {"EXTENDED_COPY_LID1": 0x00, "EXTENDED_COPY_LID4": 0x01},
}
# every service-action name known to the model, whatever opcode carries it
ALL_SERVICE_ACTIONS = {}
for _op, _d in SERVICE_ACTIONS.items():
    for _k, _v in _d.items():
        ALL_SERVICE_ACTIONS.setdefault(_k, set()).add(_v)

STATUS = {
    "GOOD": 0x00,
    "CHECK_CONDITION": 0x02,
    "CONDITION_MET": 0x04,
    "CONDITIONS_MET": 0x04,  # the spelling this library uses
    "BUSY": 0x08,
    "INTERMEDIATE": 0x10,
    "INTERMEDIATE_CONDITION_MET": 0x14,
    "RESERVATION_CONFLICT": 0x18,
    "COMMAND_TERMINATED": 0x22,
    "TASK_SET_FULL": 0x28,
    "ACA_ACTIVE": 0x30,
    "TASK_ABORTED": 0x40,
}


def cdb_length(opcode):
    """SAM-5 5.2: CDB length by group code (top three bits).  None = no fixed length
    (variable-length 7Eh/7Fh, reserved group 3, vendor-specific groups 6 and 7)."""
    return {0: 6, 1: 10, 2: 10, 4: 16, 5: 12}.get((opcode >> 5) & 7)
