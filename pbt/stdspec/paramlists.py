"""Independent builders of the parameter lists the library composes (MODE SELECT 6/10,
PERSISTENT RESERVE OUT basic / SPEC_I_PT / REGISTER AND MOVE lists with TransportIDs,
EXTENDED COPY LID1 / LID4), written from SPC-4/5; never imports pyscsi.

A builder returns the byte string a conformant parameter list has for the supplied values
(every embedded length computed from what follows, everything not supplied zero).  Where the
standard leaves a choice the builder returns all permitted variants."""
from pbt.stdspec import responses as R
from pbt.stdspec.responses import be, put


# ---- MODE SELECT ---------------------------------------------------------------------------
def mode_select(data, ten):
    """permitted byte strings for a MODE SELECT parameter list: MODE DATA LENGTH is reserved
    (zero) in MODE SELECT; the value MODE SENSE would report is tolerated too."""
    pages = []
    for p in data["mode_pages"]:
        q = dict(p)
        q["spf"] = 1 if p.get("spf") else 0
        pages.append(q)
    hdr = {k: data.get(k, 0) for k in ("medium_type", "device_specific_parameter", "longlba")}
    sense = R.mode10(hdr, pages) if ten else R.mode6(hdr, pages)
    zero = bytearray(sense)
    if ten:
        zero[0:2] = b"\0\0"
    else:
        zero[0] = 0
    return [bytes(zero), bytes(sense)]


# ---- TransportIDs --------------------------------------------------------------------------
def transport_ids(t):
    """permitted encodings of one TransportID (iSCSI: with and without padding to the
    20-byte minimum additional length)."""
    proto = t["protocol_id"]
    fmt = t.get("tpid_format", 0) or 0
    if proto == 0x05:
        s = t["iscsi_name"]
        if fmt == 1:
            s = s + ",i,0x" + t["iscsi_initiator_session_id"]
        raw = s.encode("utf-8") + b"\0"
        raw += bytes(-len(raw) % 4)
        outs = []
        for r in (raw, raw + bytes(max(0, 20 - len(raw)))):
            o = bytearray(4) + r
            o[0] = (fmt << 6) | proto
            o[2:4] = be(len(r), 2)
            if bytes(o) not in outs:
                outs.append(bytes(o))
        return outs
    if proto == 0x0A:
        return None  # SOP: layout not modelled
    return [bytes(R.transport_id(t))]


# ---- PERSISTENT RESERVE OUT ----------------------------------------------------------------
def prout(service_action, kw):
    """list of permitted byte strings, or None when a SOP TransportID makes the list unmodelled."""
    key = be(kw.get("reservation_key", 0), 8) + be(kw.get("service_action_reservation_key", 0), 8)
    if service_action == 0x07:
        b = bytearray(24)
        b[0:16] = key
        b[17] = ((kw.get("unreg", 0) & 1) << 1) | (kw.get("aptpl", 0) & 1)
        b[18:20] = be(kw.get("relative_target_port_id", 0), 2)
        if kw.get("transport_id"):
            tids = transport_ids(kw["transport_id"])
            if tids is None:
                return None
            out = []
            for t in tids:
                x = bytearray(b)
                x[20:24] = be(len(t), 4)
                out.append(bytes(x) + t)
            return out
        return [bytes(b)]
    b = bytearray(24)
    b[0:16] = key
    b[20] = ((kw.get("spec_i_pt", 0) & 1) << 3) | ((kw.get("all_tg_pt", 0) & 1) << 2) | (kw.get("aptpl", 0) & 1)
    if service_action == 0x00 and kw.get("spec_i_pt"):
        variants = [b""]
        for t in kw.get("transport_ids", []):
            enc = transport_ids(t)
            if enc is None:
                return None
            variants = [v + e for v in variants for e in enc][:64]
        return [bytes(b) + be(len(v), 4) + v for v in variants]
    return [bytes(b)]


# ---- EXTENDED COPY -------------------------------------------------------------------------
BLOCK_TYPES = (0x00, 0x04, 0x05, 0x07, 0x0E)


def cscd_descriptor(d, params_key, pdt):
    b = bytearray(32)
    b[0] = 0xE4
    b[1] = ((d.get("lu_id_type", 0) & 3) << 6) | (pdt & 0x1F)
    b[2:4] = be(d.get("relative_initiator_port_identifier", 0), 2)
    p = d[params_key]
    body = R.designator_body(p["designator_type"], p["designator"])
    b[4] = p.get("code_set", 0) & 0x0F
    b[5] = ((p.get("association", 0) & 3) << 4) | (p["designator_type"] & 0x0F)
    b[7] = len(body)
    b[8:8 + len(body)] = body
    t = d.get("device_type_specific_parameters", {})
    if pdt in BLOCK_TYPES:
        b[28] = (t.get("pad", 0) & 1) << 2
        b[29:32] = be(t.get("disk_block_length", 0), 3)
    elif pdt == 0x01:
        b[28] = ((t.get("pad", 0) & 1) << 2) | (t.get("fixed", 0) & 1)
        b[29:32] = be(t.get("stream_block_length", 0), 3)
    elif pdt == 0x03:
        b[28] = (t.get("pad", 0) & 1) << 2
    return bytes(b)


def segment_descriptor(d, code, spc5):
    src = d.get("source_cscd_descriptor_id" if spc5 else "source_target_descriptor_id", 0)
    dst = d.get("destination_cscd_descriptor_id" if spc5 else "destination_target_descriptor_id", 0)
    if code in (0x02, 0x0D):
        b = bytearray(28)
        b[1] = ((d.get("fco", 0) & 1) << 2 if spc5 else 0) | ((d.get("dc", 0) & 1) << 1) | (d.get("cat", 0) & 1)
        b[10:12] = be(d.get("block_device_number_of_blocks", 0), 2)
        b[12:20] = be(d.get("source_block_device_logical_block_address", 0), 8)
        b[20:28] = be(d.get("destination_block_device_logical_block_address", 0), 8)
    else:
        b = bytearray(24)
        b[1] = d.get("cat", 0) & 1
        b[9:12] = be(d.get("stream_device_transfer_length", 0), 3)
        b[14:16] = be(d.get("block_device_number_of_blocks", 0), 2)
        b[16:24] = be(d.get("block_device_logical_block_address", 0), 8)
    b[0] = code
    b[2:4] = be(len(b) - 4, 2)
    b[4:6] = be(src, 2)
    b[6:8] = be(dst, 2)
    return bytes(b)


def xcopy(a, spc5):
    lst = "cscd_descriptor_list" if spc5 else "target_descriptor_list"
    pkey = "cscd_descriptor_parameters" if spc5 else "target_descriptor_parameters"
    cscd = b"".join(cscd_descriptor(d, pkey, d["_pdt"]) for d in a.get(lst, []))
    segs = b"".join(segment_descriptor(d, d["_code"], spc5) for d in a.get("segment_descriptor_list", []))
    inline = a.get("inline_data", b"")
    if isinstance(inline, dict):  # symbolic buffer {"fill": byte, "n": length}
        inline = bytes([inline["fill"]]) * inline["n"]
    inline = bytes(inline)
    if spc5:
        h = bytearray(48)
        h[0] = 0x01
        h[1] = ((a.get("sequential_striped", 0) & 1) << 5) | ((a.get("list_id_usage", 0) & 3) << 3) | (a.get("priority", 0) & 7)
        h[2:4] = be(0x20, 2)
        h[15] = ((a.get("g_sense", 0) & 1) << 1) | (a.get("immed", 0) & 1)
        h[16] = 0xFF
        h[20:24] = be(a.get("list_identifier", 0), 4)
        h[42:44] = be(len(cscd), 2)
        h[44:46] = be(len(segs), 2)
        h[46:48] = be(len(inline), 2)
    else:
        h = bytearray(16)
        h[0] = a.get("list_identifier", 0) & 0xFF
        h[1] = ((a.get("sequential_striped", 0) & 1) << 5) | ((a.get("nrcr", 0) & 1) << 4) | (a.get("priority", 0) & 7)
        h[2:4] = be(len(cscd), 2)
        h[8:12] = be(len(segs), 4)
        h[12:16] = be(len(inline), 4)
    return bytes(h) + cscd + segs + inline


def selftest():
    problems = []
    x = xcopy({"segment_descriptor_list": [{"_code": 2}], "inline_data": b"ab"}, True)
    if len(x) != 48 + 28 + 2 or x[44:46] != b"\x00\x1c":
        problems.append("xcopy lid4 lengths")
    t = transport_ids({"protocol_id": 5, "iscsi_name": "iqn.a"})
    if len(t) != 2 or len(t[0]) != 12 or len(t[1]) != 24:
        problems.append("iscsi transport id variants")
    return problems
