"""Device-side builders: semantic values -> response bytes, per format, written from
SPC-4/5, SBC-3, SMC-3, MMC-6, SAT-3 (DESIGN.md Appendix C).  Never imports pyscsi.

Value dictionaries are keyed by the names the library reports for the same quantity where
the correspondence is one-to-one (so that no second name map is needed); *positions, widths
and length arithmetic* are this module's own transcription of the standards.  Length fields
are computed from what was emitted."""


def put(buf, byte, msb, width, value):
    """store `value` in the field whose most significant bit is bit `msb` of buf[byte]."""
    start = 8 * byte + (7 - msb)
    end = start + width - 1
    nbytes_needed = end // 8 + 1
    if len(buf) < nbytes_needed:
        buf.extend(bytes(nbytes_needed - len(buf)))
    total = 8 * len(buf)
    x = int.from_bytes(bytes(buf), "big")
    mask = ((1 << width) - 1) << (total - 1 - end)
    x = (x & ~mask) | ((value << (total - 1 - end)) & mask)
    buf[:] = x.to_bytes(len(buf), "big")


def packed(nbytes, table, values):
    buf = bytearray(nbytes)
    for k, (byte, msb, width) in table.items():
        if k in values and values[k] is not None:
            put(buf, byte, msb, width, values[k])
    return buf


def be(v, n):
    return int(v).to_bytes(n, "big")


# ------------------------------------------------------------------------------------------
# INQUIRY
# ------------------------------------------------------------------------------------------
STD_INQUIRY = {
    "peripheral_qualifier": (0, 7, 3), "peripheral_device_type": (0, 4, 5), "rmb": (1, 7, 1),
    "version": (2, 7, 8), "normaca": (3, 5, 1), "hisup": (3, 4, 1), "response_data_format": (3, 3, 4),
    "sccs": (5, 7, 1), "acc": (5, 6, 1), "tpgs": (5, 5, 2), "3pc": (5, 3, 1), "protect": (5, 0, 1),
    "encserv": (6, 6, 1), "vs": (6, 5, 1), "multip": (6, 4, 1), "addr16": (6, 0, 1),
    "wbus16": (7, 5, 1), "sync": (7, 4, 1), "cmdque": (7, 1, 1), "vs2": (7, 0, 1),
    "clocking": (56, 3, 2), "qas": (56, 1, 1), "ius": (56, 0, 1),
}


def std_inquiry(v, length=96):
    """standard INQUIRY data of `length` bytes (36 <= length); ADDITIONAL LENGTH = n - 4."""
    length = max(36, length)
    buf = bytearray(length)
    for k, (byte, msb, width) in STD_INQUIRY.items():
        if byte < length and k in v:
            put(buf, byte, msb, width, v[k])
    buf[4] = length - 5
    buf[8:16] = (v.get("t10_vendor_identification", b"") + b" " * 8)[:8]
    buf[16:32] = (v.get("product_identification", b"") + b" " * 16)[:16]
    buf[32:36] = (v.get("product_revision_level", b"") + b" " * 4)[:4]
    return buf


def vpd(page_code, body, pq=0, pdt=0):
    """VPD page: header + body; PAGE LENGTH = n - 3."""
    return bytearray([((pq & 7) << 5) | (pdt & 0x1F), page_code]) + be(len(body), 2) + bytearray(body)


def vpd_supported(pages, **kw):
    return vpd(0x00, bytes(pages), **kw)


def vpd_serial(serial, **kw):
    return vpd(0x80, serial, **kw)


EXT_INQUIRY = {
    "activate_microcode": (4, 7, 2), "spt": (4, 5, 3), "grd_chk": (4, 2, 1), "app_chk": (4, 1, 1), "ref_chk": (4, 0, 1),
    "uask_sup": (5, 5, 1), "group_sup": (5, 4, 1), "prior_sup": (5, 3, 1), "headsup": (5, 2, 1), "ordsup": (5, 1, 1),
    "simpsup": (5, 0, 1), "wu_sup": (6, 3, 1), "crd_sup": (6, 2, 1), "nv_sup": (6, 1, 1), "v_sup": (6, 0, 1),
    "p_i_i_sup": (7, 4, 1), "luiclr": (7, 0, 1), "r_sup": (8, 4, 1), "cbcs": (8, 0, 1),
    "multi_it_nexus_microcode_download": (9, 3, 4), "extended_self_test_completion_minutes": (10, 7, 16),
    "poa_sup": (12, 7, 1), "hra_sup": (12, 6, 1), "vsa_sup": (12, 5, 1),
    "maximum_supported_sense_data_length": (13, 7, 8),
}


def vpd_extended(v, **kw):
    return vpd(0x86, packed(64, EXT_INQUIRY, v)[4:], **kw)


BLOCK_LIMITS = {
    "wsnz": (4, 0, 1), "max_caw_len": (5, 7, 8), "opt_xfer_len_gran": (6, 7, 16), "max_xfer_len": (8, 7, 32),
    "opt_xfer_len": (12, 7, 32), "max_pfetch_len": (16, 7, 32), "max_unmap_lba_count": (20, 7, 32),
    "max_unmap_bd_count": (24, 7, 32), "opt_unmap_gran": (28, 7, 32), "ugavalid": (32, 7, 1),
    "unmap_gran_alignment": (32, 6, 31), "max_ws_len": (36, 7, 64),
}


def vpd_block_limits(v, **kw):
    return vpd(0xB0, packed(64, BLOCK_LIMITS, v)[4:], **kw)


BLOCK_DEV_CHAR = {
    "medium_rotation_rate": (4, 7, 16), "product_type": (6, 7, 8), "wabereq": (7, 7, 2), "wacereq": (7, 5, 2),
    "nominal_form_factor": (7, 3, 4), "fuab": (8, 1, 1), "vbuls": (8, 0, 1),
}


def vpd_block_dev_char(v, **kw):
    return vpd(0xB1, packed(64, BLOCK_DEV_CHAR, v)[4:], **kw)


LBP = {
    "threshold_exponent": (4, 7, 8), "lbpu": (5, 7, 1), "lpbws": (5, 6, 1), "lbpws10": (5, 5, 1),
    "lbprz": (5, 2, 1), "anc_sup": (5, 1, 1), "dp": (5, 0, 1), "provisioning_type": (6, 2, 3),
}


def vpd_lbp(v, **kw):
    return vpd(0xB2, packed(8, LBP, v)[4:], **kw)


REFERRALS = {"user_data_segment_size": (8, 7, 32), "user_data_segment_multiplier": (12, 7, 32)}


def vpd_referrals(v, **kw):
    return vpd(0xB3, packed(16, REFERRALS, v)[4:], **kw)


def vpd_ata_information(v, **kw):
    """SAT-3 ATA Information VPD page (572 bytes); only the three SAT identification strings,
    the device signature and the IDENTIFY words are placed."""
    body = bytearray(568)
    buf = bytearray(4) + body
    buf[8:16] = (v.get("sat_vendor_identification", b"") + b" " * 8)[:8]
    buf[16:32] = (v.get("sat_product_identification", b"") + b" " * 16)[:16]
    buf[32:36] = (v.get("sat_product_rev_lvl", b"") + b" " * 4)[:4]
    sig = v.get("signature_fis", bytes(20))
    buf[36:56] = (sig + bytes(20))[:20]
    buf[56] = v.get("command_code", 0xEC)
    ident = v.get("identify", bytes(512))
    buf[60:572] = (ident + bytes(512))[:512]
    return vpd(0x89, buf[4:], **kw)


# -- designation descriptors (VPD 83h) ------------------------------------------------------
def designator_body(dtype, d):
    if dtype == 0:
        return bytes(d["vendor_specific"])
    if dtype == 1:
        return bytes(d["t10_vendor_id"])[:8].ljust(8, b" ") + bytes(d["vendor_specific_id"])
    if dtype == 2:
        cid = be(d["ieee_company_id"], 3)
        ext = bytes(d["vendor_specific_extension_id"])
        if "identifier_extension" in d:
            return bytes(d["identifier_extension"]) + cid + ext
        if "directory_id" in d:
            return cid + ext + bytes(d["directory_id"])
        return cid + ext
    if dtype == 3:
        naa = d["naa"]
        if naa == 2:
            x = (2 << 60) | (d["vendor_specific_identifier_a"] << 48) | (d["ieee_company_id"] << 24) | d["vendor_specific_identifier_b"]
            return be(x, 8)
        if naa == 3:
            return be((3 << 60) | d["locally_administered_value"], 8)
        if naa == 5:
            return be((5 << 60) | (d["ieee_company_id"] << 36) | d["vendor_specific_identifier"], 8)
        if naa == 6:
            return be((6 << 60) | (d["ieee_company_id"] << 36) | d["vendor_specific_identifier"], 8) + be(d["vendor_specific_identifier_extension"], 8)
        raise ValueError(naa)
    if dtype == 4:
        return bytes(2) + be(d["relative_port"], 2)
    if dtype == 5:
        return bytes(2) + be(d["target_portal_group"], 2)
    if dtype == 6:
        return bytes(2) + be(d["logical_unit_group"], 2)
    if dtype == 7:
        return bytes(d["md5_logical_identifier"])
    if dtype == 8:
        return bytes(d["scsi_name_string"])
    if dtype == 9:
        # protocol specific port identifier, SCSI over PCI Express flavour (SPC-4 7.8.6.11.3): PCI EXPRESS
        # ROUTING ID in bytes 0..1, bytes 2..7 reserved
        return be(d["pci_express_routing_id"], 2) + bytes(6)
    raise ValueError(dtype)


def designation_descriptor(d):
    body = designator_body(d["designator_type"], d["designator"])
    hdr = bytearray(4)
    put(hdr, 0, 7, 4, d.get("protocol_identifier", 0))
    put(hdr, 0, 3, 4, d.get("code_set", 1))
    put(hdr, 1, 7, 1, d.get("piv", 0))
    put(hdr, 1, 5, 2, d.get("association", 0))
    put(hdr, 1, 3, 4, d["designator_type"])
    hdr[3] = len(body)
    return hdr + body


def vpd_device_identification(descs, **kw):
    return vpd(0x83, b"".join(bytes(designation_descriptor(d)) for d in descs), **kw)


# ------------------------------------------------------------------------------------------
# MODE SENSE parameter lists
# ------------------------------------------------------------------------------------------
CONTROL_PAGE = {  # offsets within the page (byte 0 = page code byte); page length 0Ah
    "tst": (2, 7, 3), "tmf_only": (2, 4, 1), "dpicz": (2, 3, 1), "d_sense": (2, 2, 1), "gltsd": (2, 1, 1),
    "rlec": (2, 0, 1), "queue_algorithm_modifier": (3, 7, 4), "nuar": (3, 3, 1), "qerr": (3, 2, 2),
    "vs": (4, 7, 1), "rac": (4, 6, 1), "ua_intlck_ctrl": (4, 5, 2), "swp": (4, 3, 1),
    "ato": (5, 7, 1), "tas": (5, 6, 1), "atmpe": (5, 5, 1), "rwwp": (5, 4, 1), "autoload_mode": (5, 2, 3),
    "busy_timeout_period": (8, 7, 16), "extended_self_test_completion_time": (10, 7, 16),
}
CONTROL_EXT_PAGE = {  # sub-page format: 4-byte header; page length 001Ch
    "tcmos": (4, 2, 1), "scsip": (4, 1, 1), "ialuae": (4, 0, 1), "initial_command_priority": (5, 3, 4),
    "maximum_sense_data_length": (6, 7, 8),
}
DISCONNECT_PAGE = {  # page length 0Eh
    "buffer_full_ratio": (2, 7, 8), "buffer_empty_ratio": (3, 7, 8), "bus_inactivity_limit": (4, 7, 16),
    "disconnect_time_limit": (6, 7, 16), "connect_time_limit": (8, 7, 16), "maximum_burst_size": (10, 7, 16),
    "emdp": (12, 7, 1), "fair_arbitration": (12, 6, 3), "dimm": (12, 3, 1), "dtdc": (12, 2, 3),
    "first_burst_size": (14, 7, 16),
}
ELEMENT_ADDRESS_PAGE = {  # SMC-3 element address assignment page, page length 12h
    "first_medium_transport_element_address": (2, 7, 16), "num_medium_transport_elements": (4, 7, 16),
    "first_storage_element_address": (6, 7, 16), "num_storage_elements": (8, 7, 16),
    "first_import_element_address": (10, 7, 16), "num_import_elements": (12, 7, 16),
    "first_data_transfer_element_address": (14, 7, 16), "num_data_transfer_elements": (16, 7, 16),
}
MODE_PAGES = {  # (page_code, sub_page_code or None) -> (table, total page bytes)
    (0x0A, None): (CONTROL_PAGE, 12),
    (0x0A, 0x01): (CONTROL_EXT_PAGE, 32),
    (0x02, None): (DISCONNECT_PAGE, 16),
    (0x1D, None): (ELEMENT_ADDRESS_PAGE, 20),
}


def mode_page(p):
    """one mode page; p has ps, page_code, optional sub_page_code (=> SPF=1) and page fields."""
    sub = p.get("sub_page_code") if p.get("spf") else None
    key = (p["page_code"], sub)
    if key in MODE_PAGES:
        table, n = MODE_PAGES[key]
        buf = packed(n, table, p)
    else:
        body = bytes(p.get("raw_body", b""))
        n = (4 if sub is not None else 2) + len(body)
        buf = bytearray(n)
        buf[n - len(body):] = body
    put(buf, 0, 7, 1, p.get("ps", 0))
    put(buf, 0, 6, 1, 1 if sub is not None else 0)
    put(buf, 0, 5, 6, p["page_code"])
    if sub is not None:
        buf[1] = sub
        buf[2:4] = be(len(buf) - 4, 2)
    else:
        buf[1] = len(buf) - 2
    return buf


def block_descriptor(d, long_lba=False):
    if long_lba:
        return be(d.get("number_of_blocks", 0), 8) + bytes(4) + be(d.get("block_length", 0), 4)
    return bytes([d.get("density_code", 0)]) + be(d.get("number_of_blocks", 0) & 0xFFFFFF, 3) + bytes(1) + be(d.get("block_length", 0) & 0xFFFFFF, 3)


def mode6(v, pages, block_descriptors=()):
    bd = b"".join(block_descriptor(d) for d in block_descriptors)
    body = bd + b"".join(bytes(mode_page(p)) for p in pages)
    hdr = bytearray(4)
    hdr[1] = v.get("medium_type", 0)
    hdr[2] = v.get("device_specific_parameter", 0)
    hdr[3] = len(bd)
    out = hdr + body
    out[0] = len(out) - 1
    return out


def mode10(v, pages, block_descriptors=()):
    ll = v.get("longlba", 0)
    bd = b"".join(block_descriptor(d, ll) for d in block_descriptors)
    body = bd + b"".join(bytes(mode_page(p)) for p in pages)
    hdr = bytearray(8)
    hdr[2] = v.get("medium_type", 0)
    hdr[3] = v.get("device_specific_parameter", 0)
    hdr[4] = ll & 1
    hdr[6:8] = be(len(bd), 2)
    out = hdr + body
    out[0:2] = be(len(out) - 2, 2)
    return out


# ------------------------------------------------------------------------------------------
# SBC
# ------------------------------------------------------------------------------------------
def read_capacity10(v):
    return bytearray(be(v["returned_lba"], 4) + be(v["block_length"], 4))


READCAP16 = {
    "returned_lba": (0, 7, 64), "block_length": (8, 7, 32), "p_type": (12, 3, 3), "prot_en": (12, 0, 1),
    "p_i_exponent": (13, 7, 4), "lbppbe": (13, 3, 4), "lbpme": (14, 7, 1), "lbprz": (14, 6, 1),
    "lowest_aligned_lba": (14, 5, 14),
}


def read_capacity16(v):
    return packed(32, READCAP16, v)


def get_lba_status(descs):
    body = bytearray()
    for d in descs:
        x = bytearray(16)
        x[0:8] = be(d["lba"], 8)
        x[8:12] = be(d["num_blocks"], 4)
        x[12] = d["p_status"] & 0x0F
        body += x
    out = bytearray(8) + body
    out[0:4] = be(len(out) - 4, 4)
    return out


def report_luns(luns):
    out = bytearray(8) + b"".join(be(l, 8) for l in luns)
    out[0:4] = be(len(out) - 8, 4)
    return out


TPG_DESC = {
    "pref": (0, 7, 1), "asymmetric_access_state": (0, 3, 4), "t_sup": (1, 7, 1), "o_sup": (1, 6, 1),
    "u_sup": (1, 3, 1), "s_sup": (1, 2, 1), "an_sup": (1, 1, 1), "ao_sup": (1, 0, 1),
    "target_port_group": (2, 7, 16), "status_code": (5, 7, 8), "vendor": (6, 7, 8),
}


def rtpg(groups, extended=False, implicit_transition_time=0):
    body = bytearray()
    if extended:
        h = bytearray(4)
        put(h, 0, 6, 3, 1)
        h[1] = implicit_transition_time
        body += h
    for g in groups:
        d = packed(8, TPG_DESC, g)
        ports = g.get("ports", [])
        d[7] = len(ports)
        body += d
        for p in ports:
            body += bytes(2) + be(p, 2)
    return bytearray(be(len(body), 4)) + body


def report_priority(descs):
    body = bytearray()
    for d in descs:
        tid = bytes(d["transport_id"])
        x = bytearray(8)
        x[0] = d["current_priority"] & 0x0F
        x[2:4] = be(d["rtpi"], 2)
        x[6:8] = be(len(tid), 2)
        body += x + tid
    return bytearray(be(len(body), 4)) + body


# ------------------------------------------------------------------------------------------
# TransportIDs and PERSISTENT RESERVE IN
# ------------------------------------------------------------------------------------------
def transport_id(t):
    proto = t["protocol_id"]
    fmt = t.get("tpid_format", 0) or 0
    if proto == 0x05:
        s = t["iscsi_name"]
        if fmt == 1:
            s = s + ",i,0x" + t["iscsi_initiator_session_id"]
        raw = s.encode("utf-8") + b"\0"
        raw += bytes(-len(raw) % 4)
        if len(raw) < 20:
            raw += bytes(20 - len(raw))
        out = bytearray(4) + raw
        out[0] = (fmt << 6) | proto
        out[2:4] = be(len(raw), 2)
        return out
    out = bytearray(24)
    out[0] = (fmt << 6) | proto
    if proto == 0x00:
        out[8:16] = t["n_port_name"]
    elif proto == 0x03:
        out[8:16] = t["eui64_name"]
    elif proto == 0x04:
        out[8:24] = t["initiator_port_identifier"]
    elif proto == 0x06:
        out[4:12] = t["sas_address"]
    else:
        raise ValueError(proto)
    return out


def prin_read_keys(generation, keys):
    body = b"".join(be(k, 8) for k in keys)
    return bytearray(be(generation, 4) + be(len(body), 4) + body)


def prin_read_reservation(generation, res=None):
    if res is None:
        return bytearray(be(generation, 4) + be(0, 4))
    d = bytearray(16)
    d[0:8] = be(res["reservation_key"], 8)
    d[13] = ((res["scope"] & 0xF) << 4) | (res["type"] & 0xF)
    return bytearray(be(generation, 4) + be(16, 4)) + d


REPORT_CAP = {
    "rlr_c": (2, 7, 1), "crh": (2, 4, 1), "sip_c": (2, 3, 1), "atp_c": (2, 2, 1), "ptpl_c": (2, 0, 1),
    "tmv": (3, 7, 1), "allow_commands": (3, 6, 3), "ptpl_a": (3, 0, 1),
    "wr_ex_ar": (4, 7, 1), "ex_ac_ro": (4, 6, 1), "wr_ex_ro": (4, 5, 1), "ex_ac": (4, 3, 1), "wr_ex": (4, 1, 1),
    "ex_ac_ar": (5, 0, 1),
}


def prin_report_capabilities(v):
    out = packed(8, REPORT_CAP, v)
    out[0:2] = be(8, 2)
    return out


def prin_read_full_status(generation, descs):
    body = bytearray()
    for d in descs:
        tid = bytes(transport_id(d["transport_id"]))
        x = bytearray(24)
        x[0:8] = be(d["reservation_key"], 8)
        x[12] = ((d.get("all_tg_pt", 0) & 1) << 1) | (d.get("r_holder", 0) & 1)
        x[13] = ((d.get("scope", 0) & 0xF) << 4) | (d.get("type", 0) & 0xF)
        x[18:20] = be(d.get("relative_target_port_id", 0), 2)
        x[20:24] = be(len(tid), 4)
        body += x + tid
    return bytearray(be(generation, 4) + be(len(body), 4)) + body


# ------------------------------------------------------------------------------------------
# SMC READ ELEMENT STATUS
# ------------------------------------------------------------------------------------------
ELEM_BASE = {"element_address": (0, 7, 16), "except": (2, 2, 1), "full": (2, 0, 1),
             "additional_sense_code": (4, 7, 8), "additional_sense_code_qualifier": (5, 7, 8),
             "svalid": (9, 7, 1), "invert": (9, 6, 1), "ed": (9, 3, 1), "medium_type": (9, 2, 3),
             "source_storage_element_address": (10, 7, 16)}
ELEM_EXTRA = {
    1: {},
    2: {"access": (2, 3, 1)},
    3: {"oir": (2, 7, 1), "cmc": (2, 6, 1), "inenab": (2, 5, 1), "exenab": (2, 4, 1), "access": (2, 3, 1), "impexp": (2, 1, 1)},
    4: {"access": (2, 3, 1)},
}


def element_status(first, num, pages):
    """pages: list of dict(element_type, pvoltag, avoltag, elements=[...], extra_len=bytes after tags)."""
    body = bytearray()
    for pg in pages:
        et = pg["element_type"]
        table = dict(ELEM_BASE, **ELEM_EXTRA[et])
        extra = pg.get("extra_len", 4)
        edl = 12 + (36 if pg.get("pvoltag") else 0) + (36 if pg.get("avoltag") else 0) + extra
        descs = bytearray()
        for e in pg["elements"]:
            d = packed(12, table, e)
            if pg.get("pvoltag"):
                d += (bytes(e.get("primary_volume_tag", b"")) + bytes(36))[:36]
            if pg.get("avoltag"):
                d += (bytes(e.get("alternate_volume_tag", b"")) + bytes(36))[:36]
            d += bytes(extra)
            descs += d
        hdr = bytearray(8)
        hdr[0] = et
        hdr[1] = (0x80 if pg.get("pvoltag") else 0) | (0x40 if pg.get("avoltag") else 0)
        hdr[2:4] = be(edl, 2)
        hdr[5:8] = be(len(descs), 3)
        body += hdr + descs
    out = bytearray(8)
    out[0:2] = be(first, 2)
    out[2:4] = be(num, 2)
    out[5:8] = be(len(body), 3)
    return out + body


# ------------------------------------------------------------------------------------------
# MMC READ DISC INFORMATION / READ CD
# ------------------------------------------------------------------------------------------
SDI = {
    "disc_information_data_type": (2, 7, 3), "erasable": (2, 4, 1), "state_of_last_session": (2, 3, 2),
    "disc_status": (2, 1, 2), "number_of_first_track_on_disc": (3, 7, 8), "did_v": (7, 7, 1), "dbc_v": (7, 6, 1),
    "uru": (7, 5, 1), "dac_v": (7, 4, 1), "legacy": (7, 2, 1), "bg_format_status": (7, 1, 2), "disc_type": (8, 7, 8),
    "disc_identification": (12, 7, 32), "disc_application_code": (32, 7, 8), "number_of_opc_tables": (33, 7, 8),
}


def disc_information(v, opc_tables=b""):
    buf = packed(34, SDI, v)
    put(buf, 2, 7, 3, 0)
    for key, lsb, msb in (("number_of_sessions", 4, 9), ("first_track_number_in_last_session", 5, 10),
                          ("last_track_number_in_last_session", 6, 11)):
        x = v.get(key, 0)
        buf[lsb] = x & 0xFF
        buf[msb] = (x >> 8) & 0xFF
    buf[16:20] = (bytes(v.get("last_session_lead_in_start_address", b"")) + bytes(4))[:4]
    buf[20:24] = (bytes(v.get("last_possible_lead_out_start_address", b"")) + bytes(4))[:4]
    buf[24:32] = (bytes(v.get("disc_bar_code", b"")) + bytes(8))[:8]
    buf += bytes(opc_tables)
    buf[0:2] = be(len(buf) - 2, 2)
    return buf


def track_resources_information(v):
    buf = bytearray(12)
    buf[0:2] = be(10, 2)
    put(buf, 2, 7, 3, 1)
    for i, k in enumerate(["maximum_possible_number_of_the_tracks", "number_of_the_assigned_tracks",
                           "maximum_possible_number_of_appendable_tracks", "current_number_of_appendable_tracks"]):
        buf[4 + 2 * i:6 + 2 * i] = be(v.get(k, 0), 2)
    return buf


def pow_resources_information(v):
    buf = bytearray(16)
    buf[0:2] = be(14, 2)
    put(buf, 2, 7, 3, 2)
    for i, k in enumerate(["remaining_pow_replacements", "remaining_pow_reallocation_map_entries",
                           "number_of_remaining_pow_updates"]):
        buf[4 + 4 * i:8 + 4 * i] = be(v.get(k, 0), 4)
    return buf


USER_DATA = {1: 2352, 2: 2048, 3: 2336, 4: 2048, 5: 2324}


def readcd_sector(est, mcsb, c2ei, scsb, parts):
    """one sector image in MMC-6 order for expected sector type `est` (1 CD-DA, 2 mode 1,
    3 mode 2 formless, 4 mode 2 form 1, 5 mode 2 form 2) and the main-channel selection bits
    SYNC(0x10) HEADER CODES(0x0C: 01 header, 10 sub-header, 11 both) USER DATA(0x02) EDC&ECC(0x01).
    parts: dict with the byte strings to place."""
    out = bytearray()
    if est == 1:
        if mcsb & 0x1F:
            out += parts["data"]  # CD-DA: any selection returns the 2352 user-data bytes
    else:
        if mcsb & 0x10:
            out += parts["sync"]
        hc = (mcsb >> 2) & 3
        if hc & 1:
            out += parts["header"]
        if hc & 2 and est in (4, 5):
            out += parts["subheader"]
        if mcsb & 0x02:
            out += parts["data"]
        if mcsb & 0x01:
            if est == 2:
                out += parts["edc"] + bytes(8) + parts["p"] + parts["q"]
            elif est == 4:
                out += parts["edc"] + parts["p"] + parts["q"]
            elif est == 5:
                out += parts["edc"]
    if c2ei == 1:
        out += parts["c2"][:294]
    elif c2ei == 2:
        out += parts["c2"][:296]
    if scsb == 2:
        out += parts["sub"][:16]
    elif scsb in (1, 4):
        out += parts["sub"][:96]
    return out


# ------------------------------------------------------------------------------------------
# sense data
# ------------------------------------------------------------------------------------------
def sense_fixed(key, asc, ascq, deferred=False, valid=0, information=0, length=18, flags=0, cmd_info=0,
                fru=0, sks=0):
    # length: number of sense bytes the target sends (>= 14 so that ASC/ASCQ are included; SCSI-2 era
    # targets send 14, current ones 18 or more); ADDITIONAL SENSE LENGTH = length - 8
    total = max(14, length)
    buf = bytearray(max(18, total))
    buf[0] = (0x80 if valid else 0) | (0x71 if deferred else 0x70)
    buf[2] = ((flags & 0xF) << 4) | (key & 0xF)
    buf[3:7] = be(information, 4)
    buf[7] = len(buf) - 8
    buf[8:12] = be(cmd_info, 4)
    buf[12] = asc
    buf[13] = ascq
    buf[14] = fru
    buf[15:18] = be(sks & 0xFFFFFF, 3)
    buf[7] = total - 8
    return buf[:total]


def sense_descriptor(key, asc, ascq, deferred=False, descriptors=b""):
    buf = bytearray(8)
    buf[0] = 0x73 if deferred else 0x72
    buf[1] = key & 0xF
    buf[2] = asc
    buf[3] = ascq
    buf[7] = len(descriptors)
    return buf + bytes(descriptors)


def selftest():
    problems = []
    if std_inquiry({"peripheral_device_type": 5})[0] != 5:
        problems.append("std_inquiry pdt")
    if len(vpd_block_limits({})) != 64 or len(vpd_extended({})) != 64:
        problems.append("vpd page length")
    r = rtpg([{"ports": [1, 2]}], True, 7)
    if int.from_bytes(r[:4], "big") != len(r) - 4:
        problems.append("rtpg length")
    for table, n in list(MODE_PAGES.values()) + [(READCAP16, 32), (BLOCK_LIMITS, 64), (EXT_INQUIRY, 64), (SDI, 34)]:
        used = 0
        for k, (byte, msb, width) in table.items():
            start = 8 * byte + 7 - msb
            m = ((1 << width) - 1) << (8 * n - start - width)
            if start + width > 8 * n:
                problems.append("field %s outside its structure" % k)
            if used & m:
                problems.append("field %s overlaps" % k)
            used |= m
    return problems
