"""Self-test of the independent standard model: internal contradictions are harness errors."""
import sys


def main():
    problems = []
    from pbt.stdspec import opcodes
    for t, tab in opcodes.TABLES.items():
        for name, v in tab.items():
            if not (0 <= v <= 0xFF):
                problems.append("opcode out of range %s.%s" % (t, name))
    try:
        from pbt.stdspec import cdb
        problems += cdb.selftest()
    except ImportError:
        pass
    try:
        from pbt.stdspec import responses
        problems += responses.selftest()
    except ImportError:
        pass
    try:
        from pbt.stdspec import paramlists
        problems += paramlists.selftest()
    except ImportError:
        pass
    for p in problems:
        print("STDSPEC-SELFTEST: " + p, file=sys.stderr)
    if problems:
        return 2
    print("stdspec selftest ok")
    return 0
