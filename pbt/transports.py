"""Real SCSIDevice / ISCSIDevice objects over the binding stand-ins."""
import os

from pbt import standins
from pbt.standins import iscsi as iscsi_mod
from pbt.standins import sgio as sgio_mod

ISCSI_URL = "iscsi://127.0.0.1:3260/iqn.2000-01.org.verif:target0/0"
INITIATOR = "iqn.2000-01.org.verif:initiator"


def scratch_dir():
    d = os.environ.get("VERIF_SCRATCH")
    if not d or not d.startswith("/dev/"):
        d = "/dev/shm/verif-%d" % os.getpid()
    os.makedirs(d, exist_ok=True)
    return d


def node_path(name="node0"):
    return os.path.join(scratch_dir(), name)


def make_node(path):
    with open(path, "wb") as f:
        f.write(b"\0")
    return os.stat(path).st_ino


def set_handler(fn):
    """fn(cdb, dataout, datain) -> (status, sense)"""
    sgio_mod.handler = fn
    iscsi_mod.handler = (lambda cdb, dout, din, task=None: fn(cdb, dout, din)) if fn else None


def make_sgio(path=None, handler=None, **kw):
    from pyscsi.pyscsi.scsi_device import SCSIDevice

    path = path or node_path()
    if not os.path.exists(path):
        make_node(path)
    if handler is not None:
        sgio_mod.routes[path] = handler
    return SCSIDevice(path, **kw)


def make_iscsi(url=ISCSI_URL, initiator=INITIATOR, handler=None):
    from pyscsi.pyiscsi.iscsi_device import ISCSIDevice

    if handler is not None:
        iscsi_mod.routes[url] = handler
    return ISCSIDevice(url, initiator)


def clear_routes():
    sgio_mod.routes.clear()
    iscsi_mod.routes.clear()


def log_mark():
    return len(standins.LOG)


def log_since(mark, prefix=None):
    out = standins.LOG[mark:]
    if prefix:
        out = [e for e in out if e[0].startswith(prefix)]
    return out
