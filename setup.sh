#!/bin/sh
# MANIFEST.setup_cmd: make hypothesis (and atheris for the thorough C11 tier) importable
# from files on disk only.  /venv normally has hypothesis already; otherwise install the
# wheels into /verif/.deps (git-ignored).
cd "$(dirname "$0")" || exit 2
PY=/venv/bin/python
[ -x "$PY" ] || PY=python3
export PIP_NO_INDEX=1
WH=/opt/veriftools/wheels
mkdir -p .deps
if ! PYTHONPATH=/verif/.deps "$PY" -c "import hypothesis" >/dev/null 2>&1; then
    "$PY" -m pip install --no-index --find-links "$WH" --target .deps hypothesis || exit 2
fi
if ! PYTHONPATH=/verif/.deps "$PY" -c "import atheris" >/dev/null 2>&1; then
    "$PY" -m pip install --no-index --find-links "$WH" --target .deps atheris >/dev/null 2>&1 \
        || echo "note: atheris not installable; thorough C11 falls back to generated inputs only"
fi
PYTHONPATH="/repo:/verif/.deps:$(pwd)" "$PY" -B pbt/run.py selftest || exit 2
echo "setup ok"
