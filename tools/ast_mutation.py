"""AST mutation sweep (not a registered check).

Single-token mutants of the code inside the library's functions (integer constant +1,
comparison operator swapped, + <-> -, << <-> >>, and <-> or, condition negated), each applied to
a scratch copy of /repo; mutants the repository's own tests catch are skipped, the others run
against the quick tier (reduced example count) of the properties whose anchors list the file.
Survivors are either equivalent or blind spots: sensitivity/ast_mutants.json / AST.md.

    python3 tools/ast_mutation.py [--jobs 6] [--scale 0.15] [--per-function 6] [--only regex] [--list]
"""
import argparse
import ast
import concurrent.futures
import json
import os
import re
import shutil
import subprocess
import sys
import time

VERIF = os.path.dirname(os.path.dirname(os.path.abspath(__file__)))
REPO = "/repo"
PY = "/venv/bin/python"
CHEAP_FIRST = ["C14", "C16", "C19", "C15", "C07", "C08", "C18", "C12", "C10", "C06", "C04", "C09", "C11", "C05", "C13", "C03", "C02", "C17", "C01"]


def anchors():
    m = {}
    for line in open(os.path.join(VERIF, "properties.jsonl")):
        p = json.loads(line)
        for f in p["anchors"]["files"]:
            m.setdefault(f, []).append(p["id"])
    return m


SWAP_CMP = {ast.Lt: "<=", ast.LtE: "<", ast.Gt: ">=", ast.GtE: ">", ast.Eq: "!=", ast.NotEq: "=="}
SWAP_BIN = {ast.Add: "-", ast.Sub: "+", ast.LShift: ">>", ast.RShift: "<<", ast.Mult: "//", ast.FloorDiv: "*"}
OPTXT = {ast.Lt: "<", ast.LtE: "<=", ast.Gt: ">", ast.GtE: ">=", ast.Eq: "==", ast.NotEq: "!=", ast.Add: "+", ast.Sub: "-",
         ast.LShift: "<<", ast.RShift: ">>", ast.Mult: "*", ast.FloorDiv: "//"}


class Collector(ast.NodeVisitor):
    def __init__(self, src):
        self.src = src
        self.lines = src.splitlines(keepends=True)
        self.starts = [0]
        for l in self.lines:
            self.starts.append(self.starts[-1] + len(l))
        self.func = []
        self.sites = []  # (func, kind, start, end, replacement, line)

    def off(self, line, col):
        # col is a utf8 byte offset; sources are ascii except comments - convert defensively
        text = self.lines[line - 1]
        return self.starts[line - 1] + len(text.encode()[:col].decode(errors="ignore"))

    def span(self, node):
        return self.off(node.lineno, node.col_offset), self.off(node.end_lineno, node.end_col_offset)

    def visit_FunctionDef(self, node):
        self.func.append(node.name)
        for child in node.body:
            self.visit(child)
        self.func.pop()

    visit_AsyncFunctionDef = visit_FunctionDef

    def add(self, kind, start, end, rep, line):
        if self.func:
            self.sites.append((".".join(self.func), kind, start, end, rep, line))

    def visit_Constant(self, node):
        if isinstance(node.value, int) and not isinstance(node.value, bool):
            s, e = self.span(node)
            text = self.src[s:e]
            rep = ("0x%X" % (node.value + 1)) if text.lower().startswith("0x") else str(node.value + 1)
            self.add("const+1", s, e, rep, node.lineno)

    def between(self, left, right, optext):
        s = self.span(left)[1]
        e = self.span(right)[0]
        seg = self.src[s:e]
        i = seg.find(optext)
        if i < 0:
            return None
        return s + i, s + i + len(optext)

    def visit_Compare(self, node):
        if len(node.ops) == 1 and type(node.ops[0]) in SWAP_CMP:
            pos = self.between(node.left, node.comparators[0], OPTXT[type(node.ops[0])])
            if pos:
                self.add("cmp", pos[0], pos[1], SWAP_CMP[type(node.ops[0])], node.lineno)
        self.generic_visit(node)

    def visit_BinOp(self, node):
        if type(node.op) in SWAP_BIN:
            pos = self.between(node.left, node.right, OPTXT[type(node.op)])
            if pos:
                self.add("binop", pos[0], pos[1], SWAP_BIN[type(node.op)], node.lineno)
        self.generic_visit(node)

    def visit_BoolOp(self, node):
        txt = "and" if isinstance(node.op, ast.And) else "or"
        pos = self.between(node.values[0], node.values[1], txt)
        if pos:
            self.add("boolop", pos[0], pos[1], "or" if txt == "and" else "and", node.lineno)
        self.generic_visit(node)

    def visit_If(self, node):
        s, e = self.span(node.test)
        if not isinstance(node.test, ast.Compare):
            self.add("negate", s, e, "not (%s)" % self.src[s:e], node.lineno)
        self.generic_visit(node)

    visit_While = visit_If


def sites_of(path):
    src = open(path).read()
    c = Collector(src)
    c.visit(ast.parse(src))
    return src, c.sites


def enumerate_mutants(per_function):
    out = []
    root = os.path.join(REPO, "pyscsi")
    for dirpath, _, files in sorted(os.walk(root)):
        for f in sorted(files):
            if not f.endswith(".py"):
                continue
            path = os.path.join(dirpath, f)
            rel = os.path.relpath(path, REPO)
            src, sites = sites_of(path)
            byfunc = {}
            for s in sites:
                byfunc.setdefault(s[0], []).append(s)
            for fn, lst in byfunc.items():
                # spread over kinds and positions: every comparison / boolean / negation, constants and
                # arithmetic sampled evenly
                keep = [s for s in lst if s[1] in ("cmp", "boolop", "negate")]
                rest = [s for s in lst if s[1] not in ("cmp", "boolop", "negate")]
                if per_function and len(rest) > per_function:
                    step = len(rest) / float(per_function)
                    rest = [rest[int(i * step)] for i in range(per_function)]
                if per_function and len(keep) > 2 * per_function:
                    step = len(keep) / float(2 * per_function)
                    keep = [keep[int(i * step)] for i in range(2 * per_function)]
                for (func, kind, s, e, rep, line) in keep + rest:
                    out.append({"file": rel, "func": func, "kind": kind, "start": s, "end": e, "rep": rep, "line": line,
                                "was": src[s:e], "id": "%s:%d:%d:%s" % (rel, line, s, kind)})
    return out


def one(m, scale, amap, override=None):
    tag = re.sub(r"\W+", "_", m["id"])[-80:]
    root = "/dev/shm" if os.path.isdir("/dev/shm") else "/var/tmp"
    d = os.path.join(root, "verif-ast-%s-%d" % (tag, os.getpid()))
    out = d + "-out"
    shutil.rmtree(d, ignore_errors=True)
    os.makedirs(d)
    res = dict(m, checks={})
    try:
        for item in ("pyscsi", "tests"):
            shutil.copytree(os.path.join(REPO, item), os.path.join(d, item), ignore=shutil.ignore_patterns("__pycache__"))
        path = os.path.join(d, m["file"])
        src = open(path).read()
        new = src[:m["start"]] + m["rep"] + src[m["end"]:]
        try:
            compile(new, path, "exec")
        except SyntaxError:
            res["status"] = "syntax"
            return res
        open(path, "w").write(new)
        env = dict(os.environ, PYTHONDONTWRITEBYTECODE="1")
        env.pop("PYTHONPATH", None)
        p = subprocess.run([PY, "-B", "-m", "pytest", "-q", "-p", "no:cacheprovider", "-x", "tests"], cwd=d, env=env,
                           capture_output=True, text=True, timeout=600)
        if p.returncode != 0:
            res["status"] = "repo_tests"
            return res
        os.makedirs(out, exist_ok=True)
        env = dict(os.environ, PYSCSI_VERIF_REPO=d, VERIF_OUT=out, VERIF_SEED="1", VERIF_N_SCALE=str(scale), VERIF_MAX_SHARDS="4",
                   VERIF_QUICK_LIMIT="600")
        props = amap.get(m["file"]) or ["C04", "C01"]
        props = sorted(set(props), key=CHEAP_FIRST.index)
        if override:
            props = [p_ for p_ in override if p_ in props] or props
        for prop in props:
            t0 = time.time()
            p = subprocess.run([os.path.join(VERIF, "check"), prop, "--tier", "quick"], cwd=VERIF, env=env,
                               capture_output=True, text=True, timeout=1800)
            sigs = [l.strip()[11:] for l in p.stdout.splitlines() if l.startswith("  signature")]
            res["checks"][prop] = {"exit": p.returncode, "wall_s": round(time.time() - t0, 1), "signatures": sigs[:2]}
            if p.returncode == 1:
                break
        res["status"] = "killed" if any(c["exit"] == 1 for c in res["checks"].values()) else "survived"
        return res
    except subprocess.TimeoutExpired:
        res["status"] = "timeout"
        return res
    finally:
        shutil.rmtree(d, ignore_errors=True)
        shutil.rmtree(out, ignore_errors=True)


DISPOSITION = [  # (regex on "file:line func was->rep", why a surviving mutant is not a blind spot)
    (r"marshall_(target|cscd)_descriptor_parameters", "branches of descriptor types the library does not implement (they `pass` and end in NotImplementedError, which the properties exclude)"),
    (r"readcd\.py:(9[5-9]|1[0-5][0-9]):", "READ CD selection-bit normalisation for (sector type, selection) pairs outside the unambiguous MMC-6 combinations the model generates (C04 assumption)"),
    (r"readcd\.py:.*kwargs|readcd\.py:(95|96|239|242|247|252):", "default of an optional decode selector: equal to passing 0"),
    (r"scsi\.py:\d+:\d+:const\+1 __init_opcode", "device types 02h/09h -> ssc and 03h -> spc: the property only demands the primary commands for these types, which every set offers"),
    (r"atapassthrough1[26]\.py:10[3-9]|atapassthrough1[26]\.py:11[0-2]", "T_LENGTH = 0 branch: the transfer length is 0, so the block size chosen there never matters"),
    (r"SCSICommand.__init__\(self, opcode, 0, 0\)|__init__: '0' -> '1'", "placeholder data-out length that is replaced by the composed parameter list (the data-in length at the same call is checked by C03)"),
    (r"header_target_descriptor_list_length|'0x20' -> '0x21'", "dictionary key that no layout table contains (ignored by the encoder)"),
    (r"\[:\d+\]|\[\d+ ?: ?\d+\]|slice", "slice end beyond what the field decoder reads / beyond the value's length"),
    (r"scsi_command\.py:62:", "unreachable duplicate branch of init_cdb (00h-1Fh is handled first)"),
    (r"scsi_command\.py:23[2-7]:", "length fallback for dictionaries without opcode: the byte count of every mask in the library is unchanged by the mutant"),
    (r"print_data|__str__|show_data", "text output only (the properties demand printability and the T10 text, both still given)"),
    (r"_r = bytearray\(\d+\)|_rr = bytearray\(\d+\)", "scratch buffer that is cut to the field's length (or replaced) before it is used"),
    (r"block_descriptor = data", "assignment to a variable that is never read"),
    (r"persistentreservein\.py:324:", "ADDITIONAL LENGTH 0 takes the general path with the same result (no descriptors)"),
    (r"persistentreservein\.py:326:", "one more byte behind the announced length: a descriptor needs 24, the loop drops anything shorter without reporting it"),
    (r"persistentreservein\.py:333:", "a full status descriptor without TransportID (ADDITIONAL DESCRIPTOR LENGTH 0) is not a conformant response"),
    (r"readcd\.py:188:", "EDC/ECC without user data is not among the selection combinations the model generates"),
    (r"readcd\.py:72:", "READ CD data-in is allocated per sector with a margin (3072 bytes); C03 demands at least the bytes the selection returns"),
    (r"readdiscinformation\.py:107:", "assignment to a variable that is never read afterwards (OPC tables are not decoded)"),
    (r"readdiscinformation\.py:138:", "text of the NotImplementedError for unknown data types"),
    (r"readelementstatus\.py:164:", "slice end beyond the 36 bytes of the volume tag field that is compared"),
    (r"report_luns\.py:90:", "only differs when one entry carries both the key `lun` and `lun<N>`, with equal values in every generated structure"),
    (r"report_priority\.py:.*marshall_datain", "REPORT PRIORITY parameter data is only decoded by the properties (C04); its builder is not in C06's list"),
]


def report():
    path = os.path.join(VERIF, "sensitivity", "ast_mutants.json")
    rows = json.load(open(path))
    by = {}
    for r in rows:
        by[r["status"]] = by.get(r["status"], 0) + 1
    killed_by = {}
    for r in rows:
        if r["status"] == "killed":
            k = next(p for p, c in r["checks"].items() if c["exit"] == 1)
            killed_by[k] = killed_by.get(k, 0) + 1
    out = ["# AST mutation sweep", "",
           "`python3 tools/ast_mutation.py --per-function 0`: every integer constant (+1), comparison, `+`/`-`, `<<`/`>>`,",
           "`*`/`//`, `and`/`or` and non-comparison condition inside the library's functions, one mutant each.", "",
           "* mutants: %d" % len(rows),
           "* caught by the repository's own tests (or hanging them): %d" % (by.get("repo_tests", 0) + by.get("timeout", 0)),
           "* passing the repository's tests and reported by a check: %d (%s)" % (
               by.get("killed", 0), ", ".join("%s %d" % kv for kv in sorted(killed_by.items()))),
           "* passing both: %d, listed below with the reason" % by.get("survived", 0), "",
           "| mutant | function | change | disposition |", "|---|---|---|---|"]
    unexplained = 0
    src_cache = {}
    for r in rows:
        if r["status"] != "survived":
            continue
        src = src_cache.setdefault(r["file"], open(os.path.join(REPO, r["file"])).read().splitlines())
        line = src[r["line"] - 1].strip() if r["line"] - 1 < len(src) else ""
        ident = "%s %s %s '%s' -> '%s' %s" % (r["id"], r["func"], r["func"], r["was"], r["rep"], line)
        why = next((w for rx, w in DISPOSITION if re.search(rx, ident)), None)
        if why is None:
            unexplained += 1
            why = "**UNEXPLAINED**"
        out.append("| %s:%d | %s | `%s` -> `%s` in `%s` | %s |" % (r["file"].rsplit("/", 1)[-1], r["line"], r["func"], r["was"][:30],
                                                            r["rep"][:30], line[:70].replace("|", "\\|"), why))
    open(os.path.join(VERIF, "sensitivity", "AST.md"), "w").write("\n".join(out) + "\n")
    print(by, "unexplained:", unexplained)


def main():
    if "--report" in sys.argv:
        return report()
    ap = argparse.ArgumentParser()
    ap.add_argument("--jobs", type=int, default=6)
    ap.add_argument("--scale", type=float, default=0.15)
    ap.add_argument("--per-function", type=int, default=6)
    ap.add_argument("--only", default="")
    ap.add_argument("--list", action="store_true")
    ap.add_argument("--retry-survivors", action="store_true")
    ap.add_argument("--battery", default="")
    ap.add_argument("--skip", default="")
    args = ap.parse_args()
    ms = enumerate_mutants(args.per_function)
    if args.only:
        ms = [m for m in ms if re.search(args.only, m["id"] + " " + m["func"])]
    if args.list:
        import collections
        c = collections.Counter(m["file"] for m in ms)
        for k, v in sorted(c.items()):
            print("%4d %s" % (v, k))
        print(len(ms), "mutants")
        return
    path = os.path.join(VERIF, "sensitivity", "ast_mutants.json")
    old = {}
    if os.path.exists(path):
        old = {r["id"]: r for r in json.load(open(path))}
    if args.retry_survivors:
        ms = [m for m in ms if old.get(m["id"], {}).get("status") in ("survived", "timeout")]
        if args.skip:
            ms = [m for m in ms if not re.search(args.skip, m["id"] + " " + m["func"])]
    else:
        ms = [m for m in ms if m["id"] not in old or args.only]
    amap = anchors()
    print("%d mutants to do" % len(ms), flush=True)
    n = 0

    def save():
        json.dump(sorted(old.values(), key=lambda r: r["id"]), open(path, "w"), indent=1, sort_keys=True)
    with concurrent.futures.ThreadPoolExecutor(args.jobs) as ex:
        override = [x for x in args.battery.split(",") if x]
        for r in ex.map(lambda m: one(m, args.scale, amap, override), ms):
            old[r["id"]] = r
            n += 1
            print("%-10s %s %s: %r -> %r  %s" % (r["status"], r["id"], r["func"], r["was"], r["rep"],
                                                 " ".join("%s:%d" % (k, v["exit"]) for k, v in r.get("checks", {}).items())), flush=True)
            if n % 25 == 0:
                save()
    save()


if __name__ == "__main__":
    main()
