#!/usr/bin/env python3
"""Import seeded changes written by independent sub-agents (/tmp/seed/<ID>/_out/<x>/) into
/verif/seeded/<ID>-<x>/ after confirming, in a scratch copy of /repo's working tree, that
(1) the demonstration passes without the change, (2) the patch applies, (3) the repository's
own tests still pass with it, (4) the demonstration fails with it."""
import json, os, shutil, subprocess, sys
sys.path.insert(0, os.path.dirname(os.path.dirname(os.path.abspath(__file__))))
from pbt.mutants import make_copy, run_tests, PY

V = os.path.dirname(os.path.dirname(os.path.abspath(__file__)))


def demo(d, x):
    env = dict(os.environ); env.pop("PYTHONPATH", None)
    p = subprocess.run([PY, "-B", "_out/%s/demo.py" % x], cwd=d, env=env, capture_output=True, text=True, timeout=600)
    return p.returncode, (p.stdout + p.stderr).strip()[-300:]


def main():
    ids = sys.argv[1:]
    for pid in ids:
        root = "/tmp/seed/%s/_out" % pid
        for x in sorted(os.listdir(root)) if os.path.isdir(root) else []:
            src = os.path.join(root, x)
            if not os.path.exists(os.path.join(src, "patch.diff")):
                continue
            d = make_copy("imp-%s-%s" % (pid, x))
            try:
                os.makedirs(os.path.join(d, "_out"))
                shutil.copytree(src, os.path.join(d, "_out", x))
                rc0, out0 = demo(d, x)
                p = subprocess.run(["patch", "-p1", "-d", d, "-i", os.path.join(src, "patch.diff")], capture_output=True, text=True)
                applies = p.returncode == 0
                ok, tail = run_tests(d) if applies else (False, "n/a")
                rc1, out1 = demo(d, x) if applies else (None, "")
                good = rc0 == 0 and applies and ok and rc1 not in (0, None)
                print("%s-%s: demo_before=%s applies=%s tests=%s demo_after=%s -> %s" % (pid, x, rc0, applies, tail, rc1, "KEEP" if good else "REJECT"))
                if not good:
                    print("   ", out0[-200:], "|", (p.stdout + p.stderr)[-200:], "|", out1[-200:])
                    continue
                dst = os.path.join(V, "seeded", "%s-%s" % (pid, x))
                shutil.rmtree(dst, ignore_errors=True)
                os.makedirs(dst)
                for f in ("patch.diff", "demo.py"):
                    shutil.copy(os.path.join(src, f), dst)
                am = json.load(open(os.path.join(src, "meta.json")))
                head = subprocess.run(["git", "-C", "/repo", "rev-parse", "--short", "HEAD"], capture_output=True, text=True).stdout.strip()
                meta = {"property": pid, "what": am.get("what"), "needs": am.get("needs"), "files": am.get("files"),
                        "author": "independent sub-agent given only the property text and a scratch worktree",
                        "agent_verified": am.get("verified"),
                        "confirmed": {"base_commit": head,
                                      "ran": "scratch copy of /repo: demo.py before patch (exit %s), patch -p1, repo test-suite (%s), demo.py after patch (exit %s: %s)" % (rc0, tail, rc1, out1.splitlines()[-1][:160] if out1 else "")}}
                json.dump(meta, open(os.path.join(dst, "meta.json"), "w"), indent=1)
            finally:
                shutil.rmtree(d, ignore_errors=True)

main()
