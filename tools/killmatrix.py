#!/usr/bin/env python3
"""Prints the kill matrix (markdown) from sensitivity/results.json and seeded/*/meta.json."""
import json, os
V = os.path.dirname(os.path.dirname(os.path.abspath(__file__)))
r = json.load(open(os.path.join(V, "sensitivity", "results.json")))
planted = [x for x in r if not x["id"].startswith("seeded/")]
seeded = [x for x in r if x["id"].startswith("seeded/")]
print("Planted mutants: %d, killed %d. Seeded changes: %d, killed %d (quick tier, VERIF_SEED=1).\n" % (
    len(planted), sum(1 for x in planted if x.get("killed")), len(seeded), sum(1 for x in seeded if x.get("killed"))))
print("| property | planted killed/total | seeded killed/total |")
print("|---|---|---|")
props = sorted({(p if isinstance(p, str) else p[0]) for x in r for p in [x["property"]]})
for p in props:
    pl = [x for x in planted if (x["property"] if isinstance(x["property"], str) else x["property"][0]) == p]
    se = [x for x in seeded if (x["property"] if isinstance(x["property"], str) else x["property"][0]) == p]
    print("| %s | %d/%d | %d/%d |" % (p, sum(1 for x in pl if x.get("killed")), len(pl), sum(1 for x in se if x.get("killed")), len(se)))
print("\nSeeded changes and the checks that catch them:\n")
print("| seeded change | what it needs to manifest | caught by |")
print("|---|---|---|")
for x in seeded:
    name = x["id"].split("/")[1]
    meta = json.load(open(os.path.join(V, "seeded", name, "meta.json")))
    by = ", ".join(k for k, v in x["checks"].items() if v["exit"] == 1) or "NOT CAUGHT"
    needs = (meta.get("needs") or "").replace("|", "/").replace("\n", " ")
    print("| %s | %s | %s |" % (name, needs[:230] + ("..." if len(needs) > 230 else ""), by))
