"""Systematic layout sensitivity (not a registered check).

Every entry of every bit-layout table of the library (CDB layouts `_cdb_bits`, response and
parameter-data layouts `*_bits`, mode page tables, sense layouts: ~760 entries in ~140 tables)
is displaced by one bit (or one byte for whole-byte fields and blobs) in a scratch copy of /repo
- by appending one assignment to the module that owns the table - and the checks that should see
it are run against the copy with a reduced example count (VERIF_N_SCALE).  The result is a map of
the layout entries no check observes: sensitivity/LAYOUTS.md / layouts.json.

    python3 tools/layout_sensitivity.py [--jobs 6] [--scale 0.15] [--only regex] [--retry-survivors]
"""
import argparse
import concurrent.futures
import json
import os
import re
import shutil
import subprocess
import sys
import time

VERIF = os.path.dirname(os.path.dirname(os.path.abspath(__file__)))
REPO = "/repo"
PY = "/venv/bin/python"

ENUM = r'''
import sys, pkgutil, importlib, json
sys.path.insert(0, %r)
from pbt import common
common.import_pyscsi()
import pyscsi
seen = {}
def is_layout(d):
    if not isinstance(d, dict) or not d:
        return False
    for v in d.values():
        if isinstance(v, (list, tuple)) and len(v) == 2 and all(isinstance(x, int) for x in v):
            continue
        if isinstance(v, (list, tuple)) and len(v) == 3 and v[0] in ("b", "w", "dw"):
            continue
        return False
    return True
out = []
for m in pkgutil.walk_packages(pyscsi.__path__, "pyscsi."):
    try:
        mod = importlib.import_module(m.name)
    except Exception:
        continue
    for name, obj in vars(mod).items():
        if is_layout(obj) and id(obj) not in seen:
            seen[id(obj)] = 1
            out.append((m.name, name, {k: list(v) for k, v in obj.items()}))
        if isinstance(obj, type) and obj.__module__ == m.name:
            for an, av in vars(obj).items():
                if is_layout(av) and id(av) not in seen:
                    seen[id(av)] = 1
                    out.append((m.name, obj.__name__ + "." + an, {k: list(v) for k, v in av.items()}))
print(json.dumps(out))
''' % VERIF


def enumerate_layouts():
    env = dict(os.environ, PYTHONPATH="%s:%s/.deps:%s" % (REPO, VERIF, VERIF), PYTHONDONTWRITEBYTECODE="1")
    p = subprocess.run([PY, "-B", "-c", ENUM], env=env, capture_output=True, text=True, cwd=VERIF)
    if p.returncode:
        sys.exit("enumeration failed: " + p.stderr[-800:])
    return json.loads(p.stdout.strip().splitlines()[-1])


def narrowed(v):
    """second variant: the field loses its most significant bit (blobs: their last unit)."""
    if len(v) == 3:
        if v[2] <= 1:
            return None, None
        return [v[0], v[1], v[2] - 1], "blob one unit shorter"
    mask, off = v
    if mask & (mask - 1) == 0:
        return None, None  # single-bit field
    nbytes = max(1, (mask.bit_length() + 7) // 8)
    new = mask & ~(1 << (mask.bit_length() - 1))
    # keep the byte count of the mask (the codec derives the field's bytes from it): a mask whose top byte
    # would become empty is narrowed at the bottom instead
    if max(1, (new.bit_length() + 7) // 8) != nbytes:
        new = mask & (mask - 1) if False else mask & ~(mask & -mask)
        return [new, off], "least significant bit dropped"
    return [new, off], "most significant bit dropped"


def displaced(v):
    if len(v) == 3:
        return [v[0], v[1] + 1, v[2]], "blob one %s later" % {"b": "byte", "w": "word", "dw": "dword"}[v[0]]
    mask, off = v
    nbytes = max(1, (mask.bit_length() + 7) // 8)
    if not (mask >> (8 * nbytes - 1)) & 1:
        return [mask << 1, off], "mask one bit up"
    if not mask & 1:
        return [mask >> 1, off], "mask one bit down"
    return [mask, off + 1], "one byte later"


def battery(module, attr, variant="displace"):
    m = module.rsplit(".", 1)[-1]
    if attr.endswith("_cdb_bits"):
        # (the encoder does not mask values, so a narrowed mask only shows when a CDB is decoded again)
        return ["C01", "C02", "C13"] if variant == "displace" else ["C02"]
    if variant == "narrow":
        return ["C04", "C06"]
    if m == "scsi_sense":
        return ["C08", "C07"]
    if m in ("scsi_cdb_persistentreserveout",) or "extended_copy" in m:
        return ["C05", "C06", "C04"]
    if m == "scsi_enum_modesense":
        return ["C04", "C05", "C06"]
    return ["C04", "C06", "C05", "C12"]


def one(job, scale, variant="displace"):
    module, attr, key, val = job
    new, how = displaced(val) if variant == "displace" else narrowed(val)
    tag = re.sub(r"\W+", "_", "%s.%s.%s" % (module.rsplit(".", 1)[-1], attr, key))[:90]
    root = "/dev/shm" if os.path.isdir("/dev/shm") else "/var/tmp"
    d = os.path.join(root, "verif-lay-%s-%d" % (tag, os.getpid()))
    out = d + "-out"
    shutil.rmtree(d, ignore_errors=True)
    os.makedirs(d)
    res = {"module": module, "table": attr, "key": key, "was": val, "now": new, "how": how, "checks": {}}
    try:
        shutil.copytree(os.path.join(REPO, "pyscsi"), os.path.join(d, "pyscsi"), ignore=shutil.ignore_patterns("__pycache__"))
        path = os.path.join(d, *module.split(".")) + ".py"
        with open(path, "a") as f:
            f.write("\n%s[%r] = %r  # layout sensitivity sweep\n" % (attr, key, tuple(new) if isinstance(val, tuple) else new))
        os.makedirs(out, exist_ok=True)
        env = dict(os.environ, PYSCSI_VERIF_REPO=d, VERIF_OUT=out, VERIF_SEED="1", VERIF_N_SCALE=str(scale),
                   VERIF_MAX_SHARDS="4")
        for prop in battery(module, attr, variant):
            t0 = time.time()
            p = subprocess.run([os.path.join(VERIF, "check"), prop, "--tier", "quick"], cwd=VERIF, env=env,
                               capture_output=True, text=True, timeout=1800)
            sigs = [l.strip()[11:] for l in p.stdout.splitlines() if l.startswith("  signature")]
            res["checks"][prop] = {"exit": p.returncode, "wall_s": round(time.time() - t0, 1), "signatures": sigs[:3]}
            if p.returncode == 1:
                break
        res["killed"] = any(c["exit"] == 1 for c in res["checks"].values())
        return res
    finally:
        shutil.rmtree(d, ignore_errors=True)
        shutil.rmtree(out, ignore_errors=True)


DISPOSITION = [  # (regex on "module:table:key", why a surviving displacement is not a gap)
    (r"scsi_sense:.*:(?!sense_key$|additional_sense_code$|additional_sense_code_qualifier$)", "sense fields other than response code / sense key / ASC / ASCQ are outside C07/C08 (the properties name those three and printability)"),
    (r"scsi_enum_modesense:(modesense6_cdb_bits|modeselect6_cdb_bits|power_condition_bits|power_consumption_bits|protocol_specific_logical_unit_bits):",
     "table is defined but used by no encoder/decoder of the library (dead code)"),
    (r"PersistentReserveInReadKeys\._header_bits:", "table is defined but not used by the decoder (dead code)"),
    (r"PersistentReserveInReportCapabilities\._bits:pr_type_mask", "entry is overwritten by the nested pr_type_mask dictionary (dead entry)"),
    (r"_ata_identify_bits:(general_config|specific_config)", "entry is overwritten after decoding (dead entry)"),
    (r"ExtendedCopy\._cdb_bits:service_action", "the only valid value is 0 (EXTENDED COPY LID1): a displaced zero is the same CDB"),
    (r"(_target_descriptor_bits|_cscd_descriptor_bits):lu_id_type", "the only accepted value is 0 (others are refused, C17)"),
    (r"TestUnitReady\._cdb_bits:opcode", "the operation code is 00h: a displaced zero is the same CDB"),
    (r"_pci_express_routing_id_bits", "PCIe routing-id designator is not modelled (listed as not asserted in DESIGN.md 10.3)"),
]


def report():
    path = os.path.join(VERIF, "sensitivity", "layouts.json")
    rows = json.load(open(path))
    killed = [r for r in rows if r.get("killed")]
    surv = [r for r in rows if not r.get("killed")]
    by = {}
    for r in killed:
        k = next(p for p, c in r["checks"].items() if c["exit"] == 1)
        by[k] = by.get(k, 0) + 1
    out = ["# Layout sensitivity sweep", "",
           "`python3 tools/layout_sensitivity.py` displaces every entry of every bit-layout table of the library by one bit",
           "(one byte for whole-byte fields and blobs) in a scratch copy and runs the checks that should observe it",
           "(quick tier, reduced example count).", "",
           "* layout tables: %d, entries: %d" % (len({(r["module"], r["table"]) for r in rows}), len(rows)),
           "* displaced entries reported by a check: %d (%s)" % (len(killed), ", ".join("%s %d" % kv for kv in sorted(by.items()))),
           "* not reported: %d, every one with a reason below" % len(surv), "",
           "| table | entry | disposition |", "|---|---|---|"]
    unexplained = 0
    for r in surv:
        ident = "%s:%s:%s" % (r["module"].rsplit(".", 1)[-1], r["table"], r["key"])
        why = next((w for rx, w in DISPOSITION if re.search(rx, ident)), None)
        if why is None:
            unexplained += 1
            why = "**UNEXPLAINED**"
        out.append("| %s %s | %s | %s |" % (r["module"].rsplit(".", 1)[-1], r["table"], r["key"], why))
    open(os.path.join(VERIF, "sensitivity", "LAYOUTS.md"), "w").write("\n".join(out) + "\n")
    print("%d entries, %d killed, %d survived (%d unexplained)" % (len(rows), len(killed), len(surv), unexplained))


def main():
    if "--report" in sys.argv:
        return report()
    ap = argparse.ArgumentParser()
    ap.add_argument("--jobs", type=int, default=6)
    ap.add_argument("--scale", type=float, default=0.15)
    ap.add_argument("--only", default="")
    ap.add_argument("--retry-survivors", action="store_true")
    ap.add_argument("--variant", default="displace", choices=["displace", "narrow"])
    args = ap.parse_args()
    path = os.path.join(VERIF, "sensitivity", "layouts.json" if args.variant == "displace" else "layouts_narrow.json")
    old = {}
    if os.path.exists(path):
        old = {(r["module"], r["table"], r["key"]): r for r in json.load(open(path))}
    jobs = []
    for module, attr, table in enumerate_layouts():
        for key, val in table.items():
            ident = (module, attr, key)
            if args.only and not re.search(args.only, "%s:%s:%s" % ident):
                continue
            if args.retry_survivors:
                if ident not in old or old[ident].get("killed"):
                    continue
            elif ident in old and not args.only:
                continue
            if args.variant == "narrow" and narrowed(val)[0] is None:
                continue
            jobs.append((module, attr, key, val))
    print("%d layout entries to do" % len(jobs), flush=True)
    n = 0
    with concurrent.futures.ThreadPoolExecutor(args.jobs) as ex:
        for r in ex.map(lambda j: one(j, args.scale, args.variant), jobs):
            old[(r["module"], r["table"], r["key"])] = r
            n += 1
            print("%-8s %s %s[%s] %s" % ("KILLED" if r["killed"] else "SURVIVED", r["module"].rsplit(".", 1)[-1], r["table"], r["key"],
                                         " ".join("%s:%d" % (k, v["exit"]) for k, v in r["checks"].items())), flush=True)
            if n % 20 == 0:
                json.dump(sorted(old.values(), key=lambda r: (r["module"], r["table"], r["key"])), open(path, "w"), indent=1, sort_keys=True)
    json.dump(sorted(old.values(), key=lambda r: (r["module"], r["table"], r["key"])), open(path, "w"), indent=1, sort_keys=True)


if __name__ == "__main__":
    main()
