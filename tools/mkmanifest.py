#!/usr/bin/env python3
"""Regenerates MANIFEST.json from the table below (one entry per claimed property)."""
import json, os
V = os.path.dirname(os.path.dirname(os.path.abspath(__file__)))
CLAIMED = {
 "C01": ("exploration", "Hypothesis argument tuples per (class, table, call path) decoded by an independent standards model; complete single-bit walk of every CDB field", "4 C01",
         "Generated-input search over all 42 classes x defining tables x three call paths against hand-transcribed CDB layouts (length, opcode, service action, every field, defaults, stray bits), plus a deterministic walk of every bit of every field. Exploration: wide fields are sampled with boundary bias, not enumerated.",
         "stdspec/cdb.py (hand transcription of SPC-4/5, SBC-3, SMC-3, MMC-6, SAT-3 CDB tables); pbt/cmds.py argument-name map; buffer-sizing fields bounded to 2^26 bytes via ctor/facade"),
 "C02": ("exploration", "Hypothesis round-trip (encode/decode both ways) + single-field metamorphic relation per class; neighbour-interference walk", "4 C02",
         "Generated joint assignments to all fields of every class's CDB layout, generated masked byte strings, and single-field changes, through the library's own static encoder/decoder right after constructing an instance; deterministic walk of every field against all-ones neighbours. Exploration of the value space, complete over classes and fields.",
         "ranges come from the class's own masks; the static codec is exercised in the one history it is defined for (C09 covers others)"),
 "C03": ("exploration", "Hypothesis sizes/arguments; buffer lengths vs the transfer announced by the independently decoded CDB; both transports over auditing stand-in bindings", "4 C03",
         "Generated block sizes, transfer/allocation lengths, ATA transfer-mode combinations and parameter dictionaries for every class; buffers compared with the rule the standard attaches to the decoded CDB, then executed through SCSIDevice and ISCSIDevice over stand-in bindings which audit direction and lengths.",
         "stdspec/cdb.py; stand-ins for cython-sgio / cython-iscsi (DESIGN.md Appendix D); buffers bounded to 2^26 bytes"),
 "C15": ("fault_enumeration", "event/fault-injection histories on a real SCSIDevice with a real node file under /dev/shm (replug, unplug, close failure, re-open failure, CHECK CONDITION, four endings); file-system + handle-log reference model", "4 C15",
         "Generated histories of execute/replug/unplug/plug/armed-close-failure/armed-open-failure events with detection on and off, ended by close, with-exit (normal / by exception) or the facade's with; every command that reaches the binding must go through an open handle whose inode is the one now at the path, superseded handles must be closed, a vanished node must be reported, a failed close must still yield a fresh handle, and all handles must be released at the end. Thorough enumerates all event sequences up to length 4.",
         "real tmpfs inodes; close/open failures injected through an open() wrapper in the module namespace; iSCSI: connect/disconnect counts on the stand-in"),
 "C16": ("exploration", "exhaustive type x qualifier x device-kind sweep + Hypothesis attach/re-attach/command sequences against per-device simulated targets; fresh-attach reference (no-leak relation)", "4 C16",
         "All 32 peripheral device types x 8 qualifiers x {plain object, SCSIDevice, ISCSIDevice} are enumerated; generated re-attach sequences check that attach sends exactly one standard INQUIRY, the selected set is the one the property names (or offers the primary commands), equals what a fresh facade selects for the same type, earlier devices are untouched, and later commands reach the new device with opcodes of the new set.",
         "simulated targets behind per-device routes of the stand-ins; which table unrecognised types get is not constrained"),
 "C17": ("exploration", "Hypothesis invalid-request classes with expected-exception oracle, zero-execute audit and nearest-valid twin; 256 opcodes x 42 constructors enumerated", "4 C17",
         "Five invalid-input classes crossed with generated otherwise-valid arguments, each with its nearest valid twin so that both 'refuses too little' and 'refuses too much' are visible; recording device proves nothing was sent.",
         "errors identified by class name; unimplemented-but-listed EXTENDED COPY type codes are outside the property"),
 "C04": ("exploration", "Hypothesis semantic values -> bytes via independent standards builders -> library decoder; expected-value tree comparison; exact / zero-padded / garbage-padded variants", "4 C04",
         "For 30 response formats semantic values are generated over full field widths with 0..24 descriptors, rendered by builders written from the standards (own positions and length arithmetic) and decoded by the library; every modelled key must come back, lists in order and with the right count, garbage beyond the reported length must not be reported. Known finding: multi-page MODE SENSE responses (only the first page is decoded).",
         "stdspec/responses.py; unmodelled fields are not compared (ATA IDENTIFY/signature sub-fields, PCIe routing id designator, header/sub-header contents of READ CD); standard INQUIRY has no garbage variant"),
 "C05": ("exploration", "Hypothesis parameter dictionaries -> library composer vs independent standards builder, byte-for-byte; CDB parameter-list-length audit; iSCSI name lengths 1..223 enumerated", "4 C05",
         "Valid parameter dictionaries for MODE SELECT 6/10, PERSISTENT RESERVE OUT (all service actions, TransportIDs of every kind) and EXTENDED COPY LID1/LID4 are generated; the composed data-out must equal, byte for byte, what builders written from SPC-4/5 produce for the same values (positions, every embedded length, zeros elsewhere) and the CDB must announce exactly its length.",
         "stdspec/paramlists.py; permitted variants: MODE DATA LENGTH zero or MODE SENSE value, iSCSI TransportID padded to 20 bytes or not; SOP TransportIDs unmodelled"),
 "C06": ("exploration", "Hypothesis round trips in both directions per structure and a single-field read-modify-write metamorphic relation judged at the standard's field position", "4 C06",
         "For every structure the library can both build and parse: generated value dictionaries must survive marshall->unmarshall, canonical device bytes from the independent builders must survive unmarshall->marshall byte for byte, and changing one generated field of a parsed mode page / READ CAPACITY(16) data and rebuilding must change exactly that field's bits (also through modesense -> result -> modeselect on a device object, the pattern of tools/swp.py).",
         "canonical forms restricted to what the library can represent (no block descriptors, one mode page, 4 trailing element-descriptor bytes); positions for (c) from stdspec/responses.py"),
 "C07": ("fault_enumeration", "fault injection: generated (command, status, sense, raw-sense, re-execution) histories on SG_IO and iSCSI stand-ins + status-byte sweep through direct execute and every facade method; expected-outcome oracle", "4 C07",
         "Statuses and sense buffers are injected behind both binding stand-ins at generated positions of generated command histories; all 256 status bytes are swept through direct execute and the named/selected ones through each facade method; the oracle is the outcome table of the property (GOOD returns, CHECK CONDITION raises with the injected key/ASC/ASCQ or attaches raw sense when asked, other statuses raise their named error, the facade passes the device's exception object on).",
         "stand-ins model cython-sgio (CheckConditionError / UnspecifiedError, no status byte) and cython-iscsi (Task.status, Task.raw_sense); SG_IO non-CHECK-CONDITION failures: any exception"),
 "C08": ("exploration", "exhaustive enumeration of response code x key x ASC/ASCQ + Hypothesis buffers (truncation, descriptors, noise); positions per SPC and T10 texts from an independent list", "4 C08",
         "Quick enumerates all 65536 ASC/ASCQ pairs per response code and all format x key combinations on a spread sample; thorough enumerates the full 4x2x16x65536 product; generated buffers add truncation, noise and descriptor lists. Construction, str, repr and print must not raise; key/ASC/ASCQ must be the bytes at the SPC positions; ~130 assigned codes are compared with independently transcribed T10 texts.",
         "stdspec/sense.py; other table entries only for self-consistency; vendor-specific ranges accept any text"),
 "C09": ("exploration", "isolation metamorphic relation over Hypothesis histories on a pool of live commands and over harness-owned thread schedules (settrace line-event preemption; enumerated single/double preemptions for fixed program pairs); independent big-integer codec and the standards model as references", "4 C09",
         "Generated histories (construct / decode via class and instance / encode / rebuild / drop+gc / repeated marshalling with the same argument objects / facade defaults after a call with lists) must observe what the same operation gives alone; 2-3 threads running generated programs on their own commands are executed by a deterministic scheduler that preempts at generated pyscsi line events, and all single preemptions of six (thorough: twelve, plus double preemptions) fixed program pairs are enumerated. References: a freshly built equal command, an independent decoder of the class's own layout (immune to caches inside the library) and the C01 standards oracle.",
         "CPython, line-granularity preemption inside pyscsi code, <= 3 threads, <= 4 preemptions (random) / 2 (enumerated); threads sharing one command object are outside the statement"),
 "C10": ("exploration", "Hypothesis layouts/values/orders vs big-integer reference codec + exhaustive narrow fields", "4 C10",
         "Generated-input search over layouts (any width/alignment/blob/order/prior content) against a big-integer reference codec, plus exhaustive enumeration of narrow fields; exploration, not proof: the wide-field space is sampled with boundary bias.",
         "reference codec in props/c10_codec.py; XOR contract (field bits zero before encoding)"),
 "C11": ("exploration", "resource-budget oracle (traced line events <= 2000 + 400*len) over Hypothesis-mutated conformant responses, raw byte strings, exhaustive single-byte 00/FF walks and (thorough) atheris coverage-guided fuzzing per decoder", "4 C11",
         "All 21 response/sense decoders run under a step budget linear in the buffer size, counted with sys.monitoring LINE events in pyscsi frames (not wall-clock). Inputs: conformant responses with overwritten byte runs (every embedded length/count field is hit), raw byte strings up to 4 KiB, runs of 00h/FFh, an exhaustive single-byte walk, and in the thorough tier an atheris campaign per decoder with the budget oracle inside the target.",
         "fixed budget constants (> 5x the largest well-formed cost); READ CD's transfer length is generated consistently with the buffer (3072 bytes per sector as the facade allocates)"),
 "C12": ("exploration", "model-based stateful PBT against a simulated conformant target (independent CDB decoder) with a lock-step reference model; SG_IO vs iSCSI differential", "4 C12",
         "Generated histories of write/write-same/read/sync/capacity/inquiry facade calls over both transports against a simulated SBC target that decodes CDBs with the independent standards model and audits transport lengths; every read is compared with a reference model of the medium kept by the check; capacities up to 2^64-1 blocks.",
         "simulated target pbt/standins/target.py + stdspec; binding stand-ins; protection information not modelled; NUMBER OF LOGICAL BLOCKS=0 not generated"),
 "C13": ("exploration", "Hypothesis arguments x optional-keyword subsets per facade method/table on a recording device that writes an independently built conformant response during execute; CDB judged by the standards model, result by the expected-value tree; documented keywords parsed from docstrings", "4 C13",
         "Every facade method on every table that defines its command: exactly one execute, the executed object is the returned one, buffers are the very objects the device saw, opcode from the device's table, CDB decodes to the arguments with defaults for omitted optionals, and cmd.result equals values the device wrote during execute. All subsets of optional keywords and all docstring-documented keyword names are enumerated.",
         "responses from pbt/respgen.py (C04's model); truncated responses (default buffer too small) are judged structurally only"),
 "C14": ("exploration", "exhaustive enumeration vs independent T10 table (differential oracle)", "4 C14",
         "Every table entry, service action, status code and all 256 opcode values are enumerated completely and compared with an independent transcription of T10's assignments; absence of a wrong value is established for the names the model knows, consistency only for the others.",
         "stdspec/opcodes.py (hand transcription of T10 op-num, SPC-4, SBC-3, SSC-4, SMC-3, MMC-6)"),
 "C18": ("exploration", "Hypothesis RuleBasedStateMachine over up to 5 live enumerations (incl. OpCode-owned ones) in lock-step with a dict model; invariant over all live enumerations after each step", "4 C18",
         "Stateful generated histories of create/add/remove/lookup/reverse-lookup on several enumerations alive at once, compared after every step with ordinary dictionaries that underwent the same operations (names, values, first-match reverse lookup, KeyError refusals, no cross-talk).",
         "names restricted to the documented domain (identifiers not reserved by type/Enum); callable values excluded (Enum.keys filters callables by design)"),
 "C19": ("exploration", "four binding-presence configurations in fresh subprocesses; import/build/facade smoke sweep; Hypothesis device strings x read/write x initiator names against the dispatch table with open/connect logs audited", "4 C19",
         "Each presence combination of the sgio/iscsi bindings runs in its own interpreter (stand-in module or import blocker installed before pyscsi is first imported): every module is imported, every command built/encoded/decoded and run through the facade, then generated device strings (valid, near-miss, arbitrary) go through init_device and both device constructors; the oracle is the dispatch table of the property plus 'nothing opened or connected before a refusal'.",
         "stand-ins / import blocker simulate presence; open() and os.stat() intercepted in the device module's namespace"),
}
props = [json.loads(l) for l in open(os.path.join(V, "properties.jsonl")) if l.strip()]
man = {
 "version": 1,
 "setup_cmd": "sh ./setup.sh",
 "hooks": {"guard": "PYSCSI_VERIF (unused: no source instrumentation; binding stand-ins are injected through sys.modules from /verif)",
           "enable": "none needed: checks import pyscsi from /repo's working tree in a fresh interpreter",
           "baseline_off_cmd": "cd /repo && /venv/bin/python -m pytest -ra -q -p no:cacheprovider --timeout=900 --continue-on-collection-errors",
           "source_commits": [], "add_only": True},
 "engines": [{"name": "pbt", "path": "/verif/pbt", "serves_properties": sorted(CLAIMED),
              "kind_free_text": "Hypothesis 6.168 property-based harness + exhaustive enumerators + independent standard model (stdspec) + binding stand-ins"}],
 "checks": [], "not_applicable": [],
 "notes": "see DESIGN.md; known_findings.json lists fixed/known defects; pbt/mutants.py is the sensitivity driver; seeded/ holds independently written breaking changes; tools/layout_sensitivity.py and tools/ast_mutation.py are the systematic sweeps (sensitivity/LAYOUTS.md, sensitivity/AST.md)",
}
for p in props:
    i = p["id"]
    if i in CLAIMED:
        cat, tech, ref, text, note = CLAIMED[i]
        man["checks"].append({"property_id": i, "quick_cmd": "./check %s --tier quick" % i,
            "thorough_cmd": "./check %s --tier thorough" % i, "evidence_file": "/verif/evidence/%s.json" % i,
            "replay_cmd_template": "./check %s --replay {path}" % i, "engine": "pbt",
            "level_claimed": {"category": cat, "text": text, "design_ref": "DESIGN.md section " + ref},
            "level_note": note, "technique": tech})
    else:
        man["not_applicable"].append({"property_id": i, "reason": "check under construction in this round (designed in DESIGN.md section 4; not yet registered)"})
json.dump(man, open(os.path.join(V, "MANIFEST.json"), "w"), indent=1)
print("claimed:", " ".join(sorted(CLAIMED)))
