#!/bin/sh
# runs every thorough tier once, sequentially, printing exit code and wall time (used via `vp run`)
cd "$(dirname "$0")/.." || exit 2
for id in C14 C19 C16 C15 C18 C10 C08 C07 C12 C17 C02 C03 C05 C06 C04 C13 C11 C09 C01; do
  t0=$(date +%s)
  VERIF_OUT=$(pwd)/thorough_out ./check $id --tier thorough > thorough_$id.log 2>&1
  rc=$?
  echo "$id exit=$rc wall=$(( $(date +%s) - t0 ))s $(tail -1 thorough_$id.log | cut -c1-160)"
done
