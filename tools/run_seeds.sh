#!/bin/sh
# quick tier of every check at several seeds; evidence redirected to a scratch directory
cd "$(dirname "$0")/.." || exit 2
OUT=${1:-/dev/shm/verif-seeds}
mkdir -p "$OUT"
for seed in ${SEEDS:-2 3 4}; do
  for id in C01 C02 C03 C04 C05 C06 C07 C08 C09 C10 C11 C12 C13 C14 C15 C16 C17 C18 C19; do
    VERIF_SEED=$seed VERIF_OUT=$OUT ./check $id --tier quick > $OUT/$id.$seed.log 2>&1
    echo "seed=$seed $id exit=$? $(tail -1 $OUT/$id.$seed.log | cut -c1-120)"
  done
done
