#!/bin/sh
# thorough tier of the given checks, sequentially (used via `vp run -- sh tools/run_some_thorough.sh C01 C09 ...`)
cd "$(dirname "$0")/.." || exit 2
for id in "$@"; do
  t0=$(date +%s)
  VERIF_OUT=$(pwd)/thorough_out ./check $id --tier thorough > thorough_$id.log 2>&1
  rc=$?
  echo "$id exit=$rc wall=$(( $(date +%s) - t0 ))s $(tail -1 thorough_$id.log | cut -c1-160)"
done
