#!/usr/bin/env python3
"""Validate MANIFEST.json and evidence/*.json against the schemas (uses the tooling venv's jsonschema)."""
import json, sys, glob, os
try:
    import jsonschema
except ImportError:
    sys.path.insert(0, "/opt/veriftools/pyvenv/lib/python3.11/site-packages")
    import jsonschema
here = os.path.dirname(os.path.abspath(__file__))
ok = True
man = json.load(open(os.path.join(here, "MANIFEST.json")))
jsonschema.validate(man, json.load(open("/root/.vp/MANIFEST.schema.json")))
es = json.load(open("/root/.vp/EVIDENCE.schema.json"))
ids = [l and json.loads(l)["id"] for l in open(os.path.join(here, "properties.jsonl")) if l.strip()]
claimed = [c["property_id"] for c in man["checks"]]
na = [c["property_id"] for c in man.get("not_applicable", [])]
for i in ids:
    if (i in claimed) == (i in na):
        print("property %s: claimed=%s not_applicable=%s" % (i, i in claimed, i in na)); ok = False
for c in man["checks"]:
    p = os.path.join(here, c["evidence_file"].replace("/verif/", ""))
    if not os.path.exists(p):
        print("missing evidence", p); ok = False; continue
    try:
        jsonschema.validate(json.load(open(p)), es)
    except Exception as e:
        print("invalid evidence", p, str(e)[:300]); ok = False
print("validation", "ok" if ok else "FAILED")
sys.exit(0 if ok else 1)
